"""A serial stand-in for ThreadPoolExecutor (jobs run at submit time, in the submitting thread).
Used by the checks that are not about scheduling, so that every execution is sequential and
deterministic; C06 uses the controlled scheduler of mc/sched.py instead."""
import contextlib
from concurrent.futures import Future


class SerialExecutor:
    def __init__(self, *a, **k):
        pass

    def submit(self, fn, *args, **kwargs):
        f = Future()
        try:
            f.set_result(fn(*args, **kwargs))
        except BaseException as e:  # noqa
            f.set_exception(e)
        return f

    def shutdown(self, *a, **k):
        pass

    def __enter__(self):
        return self

    def __exit__(self, *exc):
        return False


@contextlib.contextmanager
def serial_pool():
    from .load import load
    load()
    import pygamma_agreement.continuum as cm
    saved = cm.ThreadPoolExecutor
    cm.ThreadPoolExecutor = SerialExecutor
    try:
        yield
    finally:
        cm.ThreadPoolExecutor = saved
