"""Glue shared by the checks that explore RNG answers (C15 C16 C19, parts of C05)."""
from .explorer import explore, Chooser, Diverged, roots as _roots
from .rngseam import RngSeam, Policy
from .runner import h


CURRENT_SEAM = None


def mark(event):
    """Non-random marker in the request log (lets a policy see progress of the code under test)."""
    if CURRENT_SEAM is not None:
        CURRENT_SEAM.log.append({"fn": "mark", "event": event})


def run_with_seam(fn, chooser, policy):
    """fn() executed with np.random answered by chooser; returns (value | exception, log)."""
    global CURRENT_SEAM
    seam = RngSeam(chooser, policy)
    CURRENT_SEAM = seam
    with seam:
        try:
            val = fn()
            exc = None
        except (Diverged,):
            raise
        except Exception as e:  # noqa - library exception under these answers
            from .explorer import Horizon
            if isinstance(e, Horizon):
                raise
            val, exc = None, f"{type(e).__name__}: {e}"
    return val, exc, seam.log


def explore_config(make_fn, judge, policy, root=(), bound=None, horizon=None, max_exec=None, res=None,
                   case_of=None, outcome_of=None, nontrivial_of=None, sample_of=None):
    """Explore every answer sequence of one configuration.
    make_fn() -> zero-arg callable running the library once (fresh objects each time).
    judge(val, exc, log) -> list of (msg, known_key|None).
    Violations are confirmed by replaying the choice sequence twice (identical verdicts required)."""
    stats = {}

    def run_fn(ch):
        return run_with_seam(make_fn(), ch, policy)

    for choices, ch, obs, cut in explore(run_fn, bound=bound, horizon=horizon, root=root, max_exec=max_exec,
                                         stats=stats):
        res["evaluations"] += 1
        res["transitions"] += len(ch.trace)
        if cut:
            continue
        res["traces"] += 1
        val, exc, log = obs
        res["state_set"].append(h([case_of(None), choices]))
        problems = judge(val, exc, log)
        if outcome_of is not None:
            o = outcome_of(val, exc, log)
            if o is not None:
                res["outcomes"].append(o if isinstance(o, (str, int)) else h(o))
        if nontrivial_of is not None and nontrivial_of(val, exc, log):
            res["nontrivial"].append(h([case_of(None), choices]))
        if sample_of is not None and len(res["samples"]) < 2:
            s = sample_of(val, exc, log, choices)
            if s is not None:
                res["samples"].append(s)
        if problems:
            # determinism: the same choice sequence must fail identically, twice
            verdicts = []
            for _ in range(2):
                ch2 = Chooser(choices)
                v2, e2, l2 = run_with_seam(make_fn(), ch2, policy)
                verdicts.append(sorted(m for m, _ in judge(v2, e2, l2)))
                res["replayed_twice"] += 1
            if verdicts[0] != verdicts[1] or verdicts[0] != sorted(m for m, _ in problems):
                raise Diverged(f"violation not reproducible on replay of {choices}: {verdicts} vs {problems}")
            for msg, known in problems[:2]:
                res["violations"].append({"msg": msg, "known": known, "case": case_of(choices),
                                          "sig": h([msg.split(':')[0], case_of(choices)])})
    res["horizon_hits"] += stats.get("horizon_hits", 0)
    if stats.get("capped"):
        res["exhaustive"] = False
        res["caps"].append(f"max_exec={max_exec}")
    return stats


def new_result():
    return {"evaluations": 0, "transitions": 0, "traces": 0, "state_set": [], "nontrivial": [], "outcomes": [],
            "samples": [], "violations": [], "unspecified": 0, "horizon_hits": 0, "replayed_twice": 0,
            "exhaustive": True, "caps": [], "extra": {}}


def compute_roots(make_fn, policy, depth, bound=None, horizon=None):
    def run_fn(ch):
        return run_with_seam(make_fn(), ch, policy)
    return _roots(run_fn, depth, bound=bound, horizon=horizon)
