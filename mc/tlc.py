"""E5 - TLC cross-check of the schedule space of one pool (secondary to E1, see DESIGN section 2 / 10.6).

The TLA+ model mc/tla/Pool.tla.tmpl describes the pool protocol (main: submit the best-alignment job, then
draw-and-submit one job per sample, collect in submission order, optional second batch, shutdown; workers:
FIFO, W of them).  TLC dumps the labelled state graph; EVERY maximal path (not only counterexamples) is
replayed on the real compute_gamma under mc/sched.py, and at every scheduling point the set of threads the
implementation enables must equal the set of actions the model enables.  The number of maximal paths must
equal the number of complete schedules the E1 explorer enumerates for the same driver.
"""
import os
import re
import shutil
import subprocess
import tempfile

HERE = os.path.dirname(os.path.realpath(__file__))


def program(J1, J2):
    """main's segments for a first batch of J1 jobs (best + samples) and a second batch of J2"""
    segs = []
    for j in range(1, J1 + 1):
        segs.append((0, j))
    segs.append((0, 0))                       # arrive at result(1)
    for j in range(1, J1):
        segs.append((j, 0))                   # result(j) returns, arrive at result(j+1)
    if J2 > 0:
        segs.append((J1, J1 + 1))             # last result of batch 1 returns, first submit of batch 2
        for j in range(J1 + 2, J1 + J2 + 1):
            segs.append((0, j))
        segs.append((0, 0))
        for j in range(J1 + 1, J1 + J2):
            segs.append((j, 0))
        segs.append((J1 + J2, 0))             # arrive at shutdown
    else:
        segs.append((J1, 0))                  # arrive at shutdown
    segs.append((99, 0))                      # shutdown returns: main finished
    return segs


def generate(J1, J2, workdir):
    J = J1 + J2
    tmpl = open(os.path.join(HERE, "tla", "Pool.tla.tmpl")).read()
    prog = "<< " + ", ".join(f"[g |-> {g}, s |-> {s}]" for g, s in program(J1, J2)) + " >>"
    acts = "\n".join(f"Job{j} == RunJob({j})" for j in range(1, J + 1))
    disj = " \\/ ".join(f"Job{j}" for j in range(1, J + 1))
    spec = tmpl.replace("@J@", str(J)).replace("@PROG@", prog).replace("@JOBACTIONS@", acts).replace("@JOBDISJ@", disj)
    with open(os.path.join(workdir, "Pool.tla"), "w") as f:
        f.write(spec)
    return spec


def run_tlc(J1, J2, W):
    """returns (graph, info): graph = {state id: [(action label, target id)]}, plus initial state id"""
    d = tempfile.mkdtemp(prefix="tlc_", dir=os.environ.get("TMPDIR", "/tmp"))
    try:
        generate(J1, J2, d)
        with open(os.path.join(d, "Pool.cfg"), "w") as f:
            f.write(f"SPECIFICATION Spec\nCONSTANT W = {W}\nINVARIANT Inv\n")
        p = subprocess.run(["tlc", "-workers", "1", "-noGenerateSpecTE", "-deadlock", "-metadir", os.path.join(d, "meta"),
                            "-dump", "dot,actionlabels", os.path.join(d, "out.dot"), "Pool.tla"],
                           cwd=d, capture_output=True, text=True, timeout=600)
        out = p.stdout + p.stderr
        if "Model checking completed. No error has been found" not in out:
            raise RuntimeError("TLC did not complete cleanly:\n" + out[-1500:])
        m = re.search(r"(\d+) states generated, (\d+) distinct states found", out)
        dot = open(os.path.join(d, "out.dot")).read()
    finally:
        shutil.rmtree(d, ignore_errors=True)
    edges = {}
    nodes = set()
    init = None
    for line in dot.splitlines():
        line = line.strip()
        em = re.match(r"(-?\d+) -> (-?\d+) \[label=\"([^\"]*)\"", line)
        if em:
            a, b, lab = em.group(1), em.group(2), em.group(3)
            if a != b or lab:
                edges.setdefault(a, []).append((lab, b))
            continue
        nm = re.match(r"(-?\d+) \[label=", line)
        if nm:
            nodes.add(nm.group(1))
            if "style = filled" in line or "style=filled" in line:
                init = nm.group(1)
    for a in list(edges):
        edges[a] = sorted(set((l, b) for l, b in edges[a] if b != a))
    return {"edges": edges, "nodes": nodes, "init": init,
            "generated": int(m.group(1)) if m else None, "distinct": int(m.group(2)) if m else len(nodes)}


def maximal_paths(graph, cap=200000):
    """every maximal path as a list of (action label, state after)"""
    out = []
    stack = [(graph["init"], [])]
    while stack:
        node, path = stack.pop()
        succ = graph["edges"].get(node, [])
        if not succ:
            out.append(path)
            if len(out) > cap:
                raise RuntimeError("too many paths")
            continue
        for lab, nxt in succ:
            stack.append((nxt, path + [(lab, node, nxt)]))
    return out


def thread_of(label):
    if label == "Main":
        return "main"
    m = re.match(r"(?:RunJob\((\d+)\)|Job(\d+))", label)
    return "j" + (m.group(1) or m.group(2))


class PathChooser:
    """Drives mc/sched.py along one model path; checks enabled-set conformance at every point."""

    def __init__(self, graph, path):
        self.graph = graph
        self.path = path
        self.i = 1        # path[0] is main's first segment, which runs before the first scheduling point
        self.trace = []
        self.mismatch = None

    def pick(self, enabled, label):
        if self.i >= len(self.path):
            self.mismatch = self.mismatch or f"implementation reaches a scheduling point ({label}) after the model path ended"
            raise RuntimeError(self.mismatch)
        lab, node, nxt = self.path[self.i]
        model_enabled = sorted({thread_of(l) for l, _ in self.graph["edges"].get(node, [])})
        if sorted(enabled) != model_enabled:
            self.mismatch = (f"at point '{label}' (step {self.i}) the implementation enables {sorted(enabled)} but the model "
                             f"enables {model_enabled}")
            raise RuntimeError(self.mismatch)
        t = thread_of(lab)
        self.i += 1
        self.trace.append((len(enabled), enabled.index(t), label))
        return enabled.index(t)

    def choose(self, n, label=None):
        raise RuntimeError("PathChooser must be used through pick()")
