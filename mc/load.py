"""Loading the code under test: always the current working tree of the repository.

VERIF_REPO (default /repo) names the tree; it is put first on sys.path and the
import is asserted to come from there.  Nothing is built: numba kernels carry no
cache=True, so they are recompiled from the (possibly edited) source at import.
"""
import os
import sys
import warnings

REPO = os.path.realpath(os.environ.get("VERIF_REPO", "/repo"))
VERIF = os.path.dirname(os.path.dirname(os.path.realpath(__file__)))

_loaded = None


def load():
    """Import pygamma_agreement from REPO (once per process) and return the module."""
    global _loaded
    if _loaded is not None:
        return _loaded
    warnings.filterwarnings("ignore")
    import logging
    logging.getLogger().setLevel(logging.CRITICAL)
    if sys.path[0] != REPO:
        sys.path.insert(0, REPO)
    for name in list(sys.modules):
        if name == "pygamma_agreement" or name.startswith("pygamma_agreement."):
            raise RuntimeError("pygamma_agreement imported before mc.load.load()")
    import pygamma_agreement
    got = os.path.realpath(pygamma_agreement.__file__)
    if not got.startswith(REPO + os.sep):
        raise RuntimeError(f"pygamma_agreement loaded from {got}, expected under {REPO}")
    _loaded = pygamma_agreement
    return pygamma_agreement
