"""C14 - computations never modify their inputs; derived continua are independent.

E2 at depth 2: level 1 = every public computation entry point applied to every input continuum /
dissimilarity (deep snapshot before and after); level 2 = every mutation (add a unit with a NEW
label, add an annotator, remove a unit, reset bounds) of every continuum the entry point returned,
and of the input itself, with the other side's snapshot compared.
"""
import itertools
import os
import tempfile

import numpy as np

from . import _align as A
from ..runner import h
from ..serial import serial_pool
from ..spec import build_continuum, cont, from_unit, to_unit

ID = "C14"
TASK_TIMEOUT = 900.0
META = {
    "rule": "state = (input continuum, dissimilarity, entry point, mutation applied to a returned / the input "
            "continuum); transition = one library call or mutation followed by a deep snapshot comparison; "
            "non-trivial = states whose entry point returned at least one continuum that was then mutated; "
            "outcomes = distinct (entry point, mutation) pairs exercised",
    "assumptions": ["snapshot = annotators, units, categories, bounds, best_window_size; for dissimilarities every "
                    "attribute incl. matrices and nested components", "only best_window_size may change, and only "
                    "through fast-mode gamma / measure_best_window_size", "thread pool replaced by a serial executor"],
    "explanation": "explicit enumeration of entry point x input x mutation; snapshots compared after every step",
}

INPUTS = {
    "two": cont(("a", [(0, 3, "x"), (5, 8, "y")]), ("b", [(1, 3, "x"), (5, 9, "x")])),
    "empty_ann": cont(("a", [(0, 2, "x"), (4, 5, "y")]), ("b", []), ("c", [(1, 3, "y")])),
    "once": cont(("a", [(0, 2, "x"), (3, 4, "x")]), ("b", [(0, 2, "x"), (3, 5, "rare")])),
    "three": cont(("a", [(0, 2, "x")]), ("b", [(1, 3, "y"), (6, 7, "y")]), ("c", [(0, 3, "x"), (6, 8, "y")])),
    "single": cont(("ref", [(0, 4, "x"), (6, 9, "y"), (11, 12, "x")])),
    # unlabelled units: several entry points refuse them (statistics over categories, category-based dissimilarities)
    # - a refusal the caller catches must leave the continuum as it was
    "unl3": cont(("a", [(0, 2, "x"), (3, 4, None)]), ("b", [(1, 3, "y")]), ("c", [(0, 3, None), (6, 8, "y")])),
    "long": cont(("a", [(i * 4, i * 4 + 2, "xy"[i % 2]) for i in range(9)]),
                 ("b", [(i * 4 + 0.5, i * 4 + 2.5, "xy"[i % 2]) for i in range(9)])),
}
DISSIMS = [{"k": "comb", "a": 1.0, "b": 1.0, "de": 1.0},
           {"k": "comb", "a": 2.0, "b": 1.0, "de": 0.5, "cat": {"k": "ord", "labels": ["gone", "rare", "x", "xy", "y"]}},
           {"k": "pos", "de": 1.0}]


def build_input(iname):
    """INPUTS[iname], plus - for every input - a category that no unit carries any more (a unit labelled 'gone'
    was added and removed): computations must leave the category set alone."""
    from pyannote.core import Segment
    c = build_continuum(INPUTS[iname])
    a = c.annotators[0]
    c.add(a, Segment(70, 71), "gone")
    c.remove(a, to_unit((70, 71, "gone")))
    return c


def snap_c(c):
    return {"annotators": list(c.annotators),
            "units": {a: [from_unit(u) for u in c.iter_annotator(a)] for a in c.annotators},
            "categories": list(c.categories), "bounds": tuple(c.bounds), "window": float(c.best_window_size)}


def snap_d(d, depth=0):
    out = {"class": type(d).__name__}
    for k, v in sorted(vars(d).items()):
        if k == "d_mat":
            out[k] = id(v)
        elif isinstance(v, np.ndarray):
            out[k] = (v.shape, v.tobytes())
        elif hasattr(v, "d_mat") and depth < 3:
            out[k] = snap_d(v, depth + 1)
        elif hasattr(v, "__iter__") and not isinstance(v, str):
            out[k] = list(v)
        else:
            out[k] = repr(v)
    return out


def diff(before, after, allow_window=False):
    out = []
    for k in before:
        if k == "window" and allow_window:
            continue
        if before[k] != after.get(k):
            out.append(f"{k}: {before[k]!r} -> {after.get(k)!r}")
    return out


MUTATIONS = ("add_new_label", "add_annotator", "remove_unit", "reset_bounds", "assign_unit_fields",
             "merge_into", "cst_splits", "cst_shift", "cst_false_neg", "cst_category")


def mutate(c, how, spec=None):
    """In-place mutators of the public API: Continuum methods and the perturbations of the shuffling tool
    (which modify the continuum they are given)."""
    from pyannote.core import Segment
    if how == "merge_into":
        c.merge(build_continuum(cont(("zz_new", [(200, 201, "x")]))), in_place=True)
        for a in c.annotators:
            c.add(a, Segment(300, 301), "x")
        return
    if how.startswith("cst_"):
        from ..load import load
        pa = load()
        if not c or any(len(list(c.iter_annotator(a))) == 0 for a in c.annotators):
            return  # the perturbations need every annotator to have a unit
        np.random.seed(17)
        tool = pa.CorpusShufflingTool(1.0, build_continuum(spec))  # its own reference object, same labels
        labels = {u[2] for _, us in spec["annotators"] for u in us}
        if how == "cst_category" and not all(u.annotation in labels for _, u in c):
            return
        {"cst_splits": tool.splits_shuffle, "cst_shift": tool.shift_shuffle, "cst_false_neg": tool.false_neg_shuffle,
         "cst_category": tool.category_shuffle}[how](c)
        return
    if how == "assign_unit_fields":
        # the caller edits the units they got back (units are documented as immutable: a refusal is fine - but if the
        # assignment is accepted it must not reach any other continuum)
        for a in list(c.annotators):
            for u in list(c.iter_annotator(a)):
                for field, val in (("annotation", "EDITED"), ("segment", Segment(500, 501))):
                    try:
                        setattr(u, field, val)
                    except Exception:  # noqa
                        pass
        return
    if how == "add_new_label":
        a = c.annotators[0] if len(c.annotators) else "a"
        c.add(a, Segment(100, 101), "NEWLABEL")
    elif how == "add_annotator":
        c.add_annotator("NEWANN")
    elif how == "remove_unit":
        for a in c.annotators:
            us = list(c.iter_annotator(a))
            if us:
                c.remove(a, us[0])
                return
    elif how == "reset_bounds":
        c.reset_bounds()


def entry_points(pa):
    """name -> (fn(c, d) -> list of derived continua, needs >= 2 annotators, allow window change)"""
    from pyannote.core import Segment
    E = {}

    def reg(name, need2=True, window=False, need_comb=False, single_ok=True):
        def deco(fn):
            E[name] = (fn, need2, window, need_comb)
            return fn
        return deco

    @reg("get_best_alignment")
    def _(c, d):
        al = c.get_best_alignment(d)
        al.compute_disorder(d)
        al.unitary_alignments[0].compute_disorder(d)
        return []

    @reg("get_best_soft_alignment")
    def _(c, d):
        c.get_best_soft_alignment(d).compute_disorder(d)
        return []

    @reg("get_fast_alignment_w1")
    def _(c, d):
        c.get_fast_alignment(d, 1)
        return []

    @reg("get_fast_alignment_w2")
    def _(c, d):
        c.get_fast_alignment(d, 2).check()
        return []

    @reg("get_first_window")
    def _(c, d):
        w, _ = c.get_first_window(d, 1)
        return [w]

    @reg("valid_alignments")
    def _(c, d):
        d.valid_alignments(c)
        return []

    @reg("gamma_k_disorder", need_comb=True)
    def _(c, d):
        al = c.get_best_alignment(d)
        al.gamma_k_disorder(d, None)
        al.gamma_k_disorder(d, "x")
        return []

    def gamma(sampler_factory, **kw):
        def fn(c, d):
            np.random.seed(11)
            with serial_pool():
                res = c.compute_gamma(d, n_samples=2, sampler=sampler_factory(), **kw)
                res.gamma
                if isinstance(d, pa.CombinedCategoricalDissimilarity):
                    res.gamma_cat
                    res.gamma_k("x")
            return [al.continuum for al in res.chance_alignments]
        return fn

    E["compute_gamma_exact_stat"] = (gamma(lambda: None), True, False, False)
    E["compute_gamma_soft_stat"] = (gamma(lambda: None, soft=True), True, False, False)
    E["compute_gamma_fast_stat"] = (gamma(lambda: None, fast=True), True, True, False)
    E["compute_gamma_exact_shuffle"] = (gamma(lambda: pa.ShuffleContinuumSampler()), True, False, False)
    E["compute_gamma_fast_shuffle_float"] = (gamma(lambda: pa.ShuffleContinuumSampler("float_pivot"), fast=True),
                                             True, True, False)
    E["compute_gamma_precision"] = (gamma(lambda: None, precision_level=0.5), True, False, False)
    E["compute_gamma_ground_truth"] = (gamma(lambda: None, ground_truth_annotators=None), True, False, False)

    # ---- calls that raise (and are caught by the user) must leave their inputs alone as well
    def raising(call, exc_types):
        def fn(c, d):
            np.random.seed(9)
            try:
                with serial_pool():
                    call(c, d)
            except exc_types:
                pass
            return []
        return fn

    E["raises_soft_and_fast"] = (raising(lambda c, d: c.compute_gamma(d, n_samples=2, soft=True, fast=True),
                                         (NotImplementedError,)), True, False, False)
    E["raises_bad_precision"] = (raising(lambda c, d: c.compute_gamma(d, n_samples=2, precision_level=2.0),
                                         (AssertionError, ValueError)), True, False, False)
    E["raises_bad_ground_truth"] = (raising(lambda c, d: c.compute_gamma(d, n_samples=2, ground_truth_annotators=["nobody"]),
                                            (AssertionError, ValueError, KeyError)), True, False, False)
    E["raises_unknown_label_for_dissim"] = (raising(
        lambda c, d: c.get_best_alignment(pa.CombinedCategoricalDissimilarity(
            cat_dissim=pa.LevenshteinCategoricalDissimilarity(["only", "these"]))), (AssertionError, ValueError, KeyError)),
        True, False, False)
    E["raises_remove_absent_unit"] = (raising(lambda c, d: c.remove(c.annotators[0], to_unit((990, 991, "absent"))),
                                              (KeyError, ValueError)), False, False, False)
    E["raises_zero_length_add"] = (raising(lambda c, d: c.add(c.annotators[0], __import__("pyannote.core").core.Segment(3, 3), "x"),
                                           (ValueError,)), False, False, False)
    E["raises_invalid_alignment"] = (raising(
        lambda c, d: pa.Alignment(c.get_best_alignment(d).unitary_alignments[:-1] or [], continuum=c, check_validity=True),
        (Exception,)), True, False, False)

    def gt_subsets(c):
        anns = list(c.annotators)
        return [anns[:1], anns[:2], anns[-1:], set(anns[1:])] if len(anns) >= 2 else [anns]

    def sampler_init_gt(factory):
        def call(c, d):
            for gt in gt_subsets(c):
                try:
                    factory().init_sampling(c, ground_truth_annotators=gt)
                except Exception:  # noqa - each refusal is caught by the caller, who goes on with the same continuum
                    pass
        return call

    E["raises_stat_init_ground_truth_subsets"] = (raising(sampler_init_gt(pa.StatisticalContinuumSampler), (Exception,)),
                                                  False, False, False)
    E["raises_shuffle_init_ground_truth_subsets"] = (raising(sampler_init_gt(pa.ShuffleContinuumSampler), (Exception,)),
                                                     False, False, False)

    def gamma_gt_subsets(c, d):
        for gt in gt_subsets(c):
            for kw in ({}, {"soft": True}):
                try:
                    c.compute_gamma(d, n_samples=1, ground_truth_annotators=gt, **kw).gamma
                except Exception:  # noqa
                    pass
    E["raises_gamma_ground_truth_subsets"] = (raising(gamma_gt_subsets, (Exception,)), True, False, False)

    @reg("handbuilt_alignment_foreign_label")
    def _(c, d):
        from pyannote.core import Segment
        anns = list(c.annotators)
        uas = [pa.UnitaryAlignment([(a, (u if a == a0 else None)) for a in anns])
               for a0 in anns for u in c.iter_annotator(a0)]
        uas.append(pa.UnitaryAlignment([(a, (pa.Unit(Segment(400, 401), "never_seen") if i == 0 else None))
                                        for i, a in enumerate(anns)]))
        al = pa.Alignment(uas, continuum=c)
        for call in (lambda: al.compute_disorder(d), lambda: al.categories, lambda: al.check(),
                     lambda: al.gamma_k_disorder(d, None), lambda: uas[-1].compute_disorder(d)):
            try:
                call()
            except Exception:  # noqa - refusing the foreign unit is fine, changing the continuum is not
                pass
        return []

    @reg("measure_best_window_size", window=True)
    def _(c, d):
        c.measure_best_window_size(d)
        return []

    @reg("stat_sampler", need2=False)
    def _(c, d):
        np.random.seed(5)
        s = pa.StatisticalContinuumSampler()
        s.init_sampling(c)
        return [s.sample_from_continuum, s.sample_from_continuum]

    @reg("shuffle_sampler", need2=False)
    def _(c, d):
        np.random.seed(5)
        s = pa.ShuffleContinuumSampler()
        s.init_sampling(c, list(c.annotators)[:1] if len(c.annotators) == 1 else None)
        return [s.sample_from_continuum, s.sample_from_continuum]

    def cst(flags, extra=None, m=0.6):
        def fn(c, d):
            np.random.seed(3)
            tool = pa.CorpusShufflingTool(m, c, **({"categories": extra} if extra else {}))
            if flags is None:
                return [tool.corpus_from_reference(2), tool.corpus_from_reference(["n1"])]
            return [tool.corpus_shuffle(2, **{f: True for f in flags}), tool.corpus_shuffle(["n1", "n2"])]
        return fn

    E["cst_init_extra_categories"] = (cst(None, extra=["zz"]), False, False, False)
    E["cst_corpus_from_reference"] = (cst(None), False, False, False)
    for f in ("shift", "false_pos", "false_neg", "cat_shuffle", "split"):
        E["cst_shuffle_" + f] = (cst([f]), False, False, False)
    E["cst_shuffle_all"] = (cst(["shift", "false_pos", "false_neg", "cat_shuffle", "split"], extra=["zz"], m=1.0),
                            False, False, False)

    @reg("copy", need2=False)
    def _(c, d):
        return [c.copy()]

    @reg("copy_flush", need2=False)
    def _(c, d):
        return [c.copy_flush()]

    @reg("merge_out", need2=False)
    def _(c, d):
        other = build_continuum(cont(("b", [(20, 21, "q")]), ("new", [(0, 1, "x")])))
        return [c.merge(other, in_place=False), c + other, other.merge(c, in_place=False)]

    @reg("merge_with_empty", need2=False)
    def _(c, d):
        # an operand without annotators is the neutral element for the VALUE, not for object identity
        return [c + pa.Continuum(), pa.Continuum() + c, c.merge(pa.Continuum(), in_place=False),
                pa.Continuum().merge(c, in_place=False)]

    @reg("getitem_iter", need2=False)
    def _(c, d):
        for a in c.annotators:
            s = c[a]
            s.add(to_unit((50, 51, "viaset")))
            if len(s) > 1:
                s.pop(0)
            list(c.iterunits(a))
        anns = c.annotators
        anns.add("ghost")
        list(c)
        c.category_weights
        c.avg_length_unit
        return []

    @reg("to_csv", need2=False)
    def _(c, d):
        fd, path = tempfile.mkstemp(suffix=".csv", dir=os.environ.get("TMPDIR", "/tmp"))
        os.close(fd)
        try:
            c.to_csv(path)
            return [pa.Continuum.from_csv(path)]
        finally:
            os.unlink(path)
    return E


def applicable(name, need2, need_comb, spec, recipe):
    n = len(spec["annotators"])
    if need2 and n < 2:
        return False
    if need_comb and recipe["k"] != "comb":
        return False
    if name.startswith("cst_") and n != 1 and "single" not in name:
        # the tool accepts multi-annotator references (uses the first); keep both kinds
        return True
    return True


def run_case(pa, E, iname, recipe, ename, mutation):
    """returns (problems, n_derived)"""
    fn, need2, allow_window, need_comb = E[ename]
    spec = INPUTS[iname]
    c = build_input(iname)
    d = A.DISSIMS.get(recipe)
    d_before = snap_d(d)
    before = snap_c(c)
    probs = []
    try:
        derived = fn(c, d)
    except Exception as e:  # noqa
        # the entry point refused this input: whatever it did before refusing, the input is as it was
        df = diff(before, snap_c(c), allow_window)
        if df:
            return [f"{ename} raised {type(e).__name__} and left its input continuum modified: {'; '.join(df)}"], 0
        dd = diff(d_before, snap_d(d))
        if dd:
            return [f"{ename} raised {type(e).__name__} and left the dissimilarity modified: {'; '.join(dd)[:200]}"], 0
        return [f"HARNESS-SKIP {type(e).__name__}: {e}"], 0
    df = diff(before, snap_c(c), allow_window)
    if df:
        probs.append(f"{ename} modified its input continuum: {'; '.join(df)}")
    dd = diff(d_before, snap_d(d))
    if dd:
        probs.append(f"{ename} modified the dissimilarity it was given: {'; '.join(dd)[:200]}")
    for i, dv in enumerate(derived):
        if dv is c:
            probs.append(f"{ename} returned its input continuum itself as result #{i} instead of an independent continuum")
    if mutation is None or probs:
        return probs, len(derived)
    # level 2 (a): mutate each derived continuum -> input and sibling results unchanged
    mid = snap_c(c)
    for i, dv in enumerate(derived):
        siblings = [(j, snap_c(o)) for j, o in enumerate(derived) if j != i and o is not dv]
        try:
            mutate(dv, mutation, spec)
        except Exception as e:  # noqa
            probs.append(f"mutation {mutation} of result #{i} of {ename} raised {type(e).__name__}: {e}")
            continue
        df = diff(mid, snap_c(c))
        if df:
            probs.append(f"{mutation} on a continuum returned by {ename} changed the input: {'; '.join(df)}")
        for j, sb in siblings:
            df = diff(sb, snap_c(derived[j]))
            if df:
                probs.append(f"{mutation} on result #{i} of {ename} changed result #{j}: {'; '.join(df)}")
    # level 2 (b): mutate the input -> derived unchanged
    if not probs and derived:
        snaps = [snap_c(o) for o in derived]
        try:
            mutate(c, mutation, spec)
        except Exception as e:  # noqa
            return probs, len(derived)
        for j, sb in enumerate(snaps):
            df = diff(sb, snap_c(derived[j]))
            if df:
                probs.append(f"{mutation} on the input changed result #{j} of {ename}: {'; '.join(df)}")
    return probs, len(derived)


def shards(tier, seed):
    from ..load import load
    E = entry_points(load())
    names = sorted(E)
    tasks = []
    for i in range(0, len(names), 2):
        tasks.append({"entries": names[i:i + 2], "tier": tier})
    return tasks


def run(task):
    from ..load import load
    pa = load()
    E = entry_points(pa)
    res = {"evaluations": 0, "transitions": 0, "traces": 0, "state_set": [], "nontrivial": [], "outcomes": [],
           "samples": [], "violations": [], "unspecified": 0, "extra": {"entry_raised": 0}}
    for ename in task["entries"]:
        fn, need2, allow_window, need_comb = E[ename]
        for iname, spec in INPUTS.items():
            for recipe in DISSIMS:
                if need2 and len(spec["annotators"]) < 2:
                    continue
                if need_comb and recipe["k"] != "comb":
                    continue
                if iname == "long" and not (ename.startswith("compute_gamma_fast") or ename.startswith("get_fast")
                                            or ename in ("measure_best_window_size", "get_first_window", "copy")):
                    continue
                uses_d = not (ename.startswith("cst_") or ename in ("copy", "copy_flush", "merge_out", "getitem_iter",
                                                                     "to_csv", "stat_sampler", "shuffle_sampler"))
                if not uses_d and recipe is not DISSIMS[0]:
                    continue
                for mutation in (None,) + MUTATIONS:
                    if iname == "unl3" and mutation and mutation.startswith("cst_"):
                        continue  # the shuffling tool's perturbations are defined for labelled units
                    probs, nd = run_case(pa, E, iname, recipe, ename, mutation)
                    res["evaluations"] += 1
                    res["transitions"] += 1 + (nd + 1 if mutation else 0)
                    res["traces"] += 1
                    key = h([iname, recipe, ename, mutation])
                    res["state_set"].append(key)
                    if probs and probs[0].startswith("HARNESS-SKIP"):
                        res["extra"]["entry_raised"] += 1
                        continue
                    res["outcomes"].append(h([ename, mutation]))
                    if nd and mutation:
                        res["nontrivial"].append(key)
                    if probs:
                        res["violations"].append({"msg": probs[0], "case": {"input": iname, "recipe": recipe,
                                                                            "entry": ename, "mutation": mutation},
                                                  "sig": h([probs[0][:80], ename, iname])})
                    elif len(res["samples"]) < 2 and nd and mutation:
                        res["samples"].append({"input": spec, "dissimilarity": recipe, "entry_point": ename,
                                               "then": mutation, "returned_continua": nd})
    return res


def replay(case):
    from ..load import load
    pa = load()
    E = entry_points(pa)
    probs, _ = run_case(pa, E, case["input"], case["recipe"], case["entry"], case["mutation"])
    probs = [p for p in probs if not p.startswith("HARNESS-SKIP")]
    return [{"msg": probs[0], "case": case}] if probs else []
