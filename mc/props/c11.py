"""C11 - the soft alignment is a minimum-disorder cover.

Same universes as C02; oracle: every unit present at least once, only well-formed unitary
alignments over own units, disorder = exact DP minimum over ALL covers (unpruned tuple set),
and <= the exact partition optimum.
"""
from . import _align as A
from ..oracles import optimum, close, check_partition
from ..runner import h
from ..spec import spec_by_annotator

ID = "C11"
META = {
    "rule": "case = (continuum, dissimilarity recipe, MIP back-end); non-trivial = distinct (continuum, recipe) "
            "whose exact cover optimum is strictly below the exact partition optimum (re-using a unit pays off); "
            "outcomes = distinct (cover optimum, partition optimum) pairs",
    "assumptions": ["oracle: DP over all covers from the unpruned tuple set, float64, <= 14 units",
                    "agreement within 1e-4 relative; integer / dyadic time grids"],
    "explanation": "explicit enumeration of a bounded input space against an exact cover oracle",
}


def backends():
    return ["cbc", "glpk_noimport"] if A.cbc_available() else ["glpk_noimport"]


def shards(tier, seed):
    return A.make_shards(tier, "cover", extra={"full": tier == "thorough", "dup_every": 7})


def judge(spec, obs, copt, popt):
    if not obs["ok"]:
        return None
    probs = check_partition(obs["nts"], spec_by_annotator(spec), cover=True)
    if probs:
        return "soft alignment is not a cover by well-formed unitary alignments: " + "; ".join(probs[:3])
    if not close(obs["disorder"], copt):
        return f"soft alignment disorder {obs['disorder']!r} but exact minimum over all covers is {copt!r}"
    if obs["disorder"] > popt + 1e-4 * max(1.0, popt):
        return f"soft alignment disorder {obs['disorder']!r} exceeds the partition optimum {popt!r}"
    return None


def run(task):
    res = {"evaluations": 0, "transitions": 0, "traces": 0, "state_set": [], "nontrivial": [], "outcomes": [],
           "samples": [], "violations": [], "extra": {"library_exceptions": 0}}
    full = task.get("full", False)
    for spec in A.iter_task_specs(task):
        labels = A.spec_label_set(spec)
        for recipe in A.menu(labels, full):
            copt = optimum(spec, recipe, cover=True)
            popt = optimum(spec, recipe, cover=False)
            key = h([spec, recipe])
            res["state_set"].append(key)
            if copt < popt * (1 - 1e-6):
                res["nontrivial"].append(key)
            res["outcomes"].append(h([round(copt, 5), round(popt, 5)]))
            for backend in backends():
                obs = A.eval_case(spec, recipe, backend, "soft")
                res["evaluations"] += 1
                res["transitions"] += 1
                if not obs["ok"]:
                    res["extra"]["library_exceptions"] += 1
                    continue
                res["traces"] += 1
                msg = judge(spec, obs, copt, popt)
                if msg:
                    res["violations"].append({"msg": msg + f" (backend {backend})",
                                              "case": A.case_dict(spec, recipe, backend, "soft")})
            k = len(res["state_set"])
            if k % 4 == 0:
                wrec = {"k": "pos", "de": 0.35} if recipe["k"] != "pos" else {"k": "comb", "a": 1.0, "b": 1.0, "de": 1.0}
                if (k // 16) % 2 == 0:
                    wrec = recipe  # the earlier alignment used the very same dissimilarity object
                warm = {"recipe": wrec, "how": A.WARM_KINDS[(k // 4) % len(A.WARM_KINDS)]}
                be = "cbc" if A.cbc_available() else "glpk_noimport"
                obs = A.eval_case(spec, recipe, be, "soft", warm=warm)
                res["evaluations"] += 1
                res["transitions"] += 2
                if obs["ok"]:
                    res["traces"] += 1
                    msg = judge(spec, obs, copt, popt)
                    if msg:
                        res["violations"].append({"msg": msg + f" [continuum reached by {warm['how']}() after an earlier alignment]",
                                                  "case": dict(A.case_dict(spec, recipe, be, "soft"), warm=warm)})
            if len(res["samples"]) < 2 and copt < popt * 0.95:
                res["samples"].append({"continuum": spec, "dissimilarity": recipe, "cover_optimum": copt,
                                       "partition_optimum": popt})
    return res


def replay(case):
    copt = optimum(case["spec"], case["recipe"], cover=True)
    popt = optimum(case["spec"], case["recipe"], cover=False)
    obs = A.eval_case(case["spec"], case["recipe"], case["backend"], "soft", warm=case.get("warm"))
    msg = judge(case["spec"], obs, copt, popt)
    return [{"msg": msg, "case": case}] if msg else []
