"""C06 - seeded results are reproducible under any thread schedule.

(1) E1 over schedules: the real compute_gamma / gamma_cat / gamma_k run under the controlled
    executor of mc/sched.py; every schedule within the deviation bound is executed for W in {1,2,3}
    model workers; the result tuple must be bit-identical to the sequential baseline and the
    happens-before monitor must report no unordered RNG / shared-object access.
(2) configuration enumeration, free-running on the real ThreadPoolExecutor in separate processes:
    PYTHONHASHSEED in {0,1,2,3,random} x os.cpu_count in {1,2,16} x two repetitions in one process.
"""
import json
import os
import subprocess
import sys

import numpy as np

from . import _align as A
from ..explorer import explore, Chooser, Horizon, Diverged
from ..runner import h
from ..serial import serial_pool
from ..spec import build_continuum, cont
from ..load import REPO, VERIF

ID = "C06"
TASK_TIMEOUT = 1500.0
META = {
    "rule": "state = one complete schedule (sequence of scheduling choices) of one driver configuration; transition "
            "= one scheduling point; non-trivial = schedules with at least one deviation from the default (main until "
            "it blocks, then the oldest runnable job); outcomes = distinct orders of schedule-visible events",
    "assumptions": ["scheduling points: submit, job end, blocking result()/__exit__/as_completed, and every visible "
                    "operation of a job (np.random call, Continuum mutator, attribute store on a Continuum / "
                    "dissimilarity / sampler it did not create); code between two visible operations is job-private",
                    "true parallelism inside CBC / GLPK / numba with the GIL released is outside a cooperative "
                    "scheduler; PYTHONHASHSEED enumerated over 5 values, os.cpu_count over {1,2,16}"],
    "explanation": "stateless exploration of thread schedules of the real code under a controlled executor "
                   "(deviation-bounded), plus free-running configuration enumeration in separate processes",
}

REF = cont(("a", [(0, 3, "x"), (5, 8, "y")]), ("b", [(1, 3, "x"), (5, 9, "x")]))
REF3 = cont(("a", [(0, 3, "x"), (5, 8, "y")]), ("b", [(1, 3, "x"), (5, 9, "x")]), ("c", [(0, 2, "y"), (4, 8, "y"), (9, 10, "x")]))
CROWDED = cont(*[(f"a{i}", [(i, 25 + i, "x"), (33 + i, 58 + i - 5, "y")]) for i in range(5)])
RECIPE = {"k": "comb", "a": 1.0, "b": 1.0, "de": 1.0}


def driver_configs():
    out = []
    for sampler in ("stat", "shuffle"):
        for mode in ("exact", "fast", "soft"):
            out.append({"sampler": sampler, "mode": mode, "n": 2, "prec": None})
    out.append({"sampler": "stat", "mode": "exact", "n": 3, "prec": None})
    # explicit ground-truth annotators on a 3-annotator reference (given as an unordered collection)
    out.append({"sampler": "shuffle", "mode": "exact", "n": 2, "prec": None, "gt": ["c", "a"]})
    out.append({"sampler": "stat", "mode": "soft", "n": 2, "prec": None, "gt": ["b", "c"]})
    # a reference large enough for fast-gamma to pick a finite window (the windowed path really runs in the jobs)
    out.append({"sampler": "shuffle", "mode": "fast", "n": 2, "prec": None, "big": [5, 8]})
    out.append({"sampler": "shuffle", "mode": "exact", "n": 2, "prec": 0.5})
    # a crowded reference: more annotators x average unit length than the annotated span, so the shuffle sampler runs
    # out of room for separated pivots and takes its last-resort branch
    out.append({"sampler": "shuffle", "mode": "exact", "n": 2, "prec": None, "crowded": True})
    # between fixing the seed and the computation the caller builds other dissimilarities - accepted ones and ones
    # the library refuses (caught): none of that is part of the seeded stream (baseline: the same computation without)
    out.append({"sampler": "stat", "mode": "exact", "n": 2, "prec": None, "pre": True})
    return out


def make_driver(dc, seed=5):
    from ..load import load
    pa = load()
    d = A.DISSIMS.get(RECIPE)
    kw = {"fast": True} if dc["mode"] == "fast" else ({"soft": True} if dc["mode"] == "soft" else {})

    def driver():
        from .. import sched
        sched.trace_containers(d)  # plain dict / list / set attributes of the shared dissimilarity become visible
        np.random.seed(seed)
        if dc.get("pre"):
            from sortedcontainers import SortedSet
            builds = [lambda: pa.CombinedCategoricalDissimilarity(alpha=2.0, beta=0.5),
                      lambda: pa.PositionalSporadicDissimilarity(delta_empty=0.5),
                      lambda: pa.PrecomputedCategoricalDissimilarity(SortedSet(["p", "q"]), np.array([[0.5, 1.0], [0.25, 0.5]])),
                      lambda: pa.OrdinalCategoricalDissimilarity(["p", "q", "r"]),
                      lambda: pa.PrecomputedCategoricalDissimilarity(SortedSet(["p"]), np.array([[1.0]])),
                      lambda: pa.LevenshteinCategoricalDissimilarity(["p", "qq"])]
            for b in builds:
                try:
                    b()
                except Exception:  # noqa - a refused dissimilarity is the caller's problem, not the seeded stream's
                    pass
        if dc.get("big"):
            from ..universe import fam_staircase
            c = build_continuum(fam_staircase(*dc["big"]))
        elif dc.get("crowded"):
            c = build_continuum(CROWDED)
        else:
            c = build_continuum(REF3 if dc.get("gt") else REF)
        s = None if dc["sampler"] == "stat" else sched.trace_containers(pa.ShuffleContinuumSampler())
        gt = set(dc["gt"]) if dc.get("gt") else None
        res = c.compute_gamma(d, n_samples=dc["n"], precision_level=dc["prec"], sampler=s,
                              ground_truth_annotators=gt, **kw)
        return {"observed": repr(float(res.observed_disorder)),
                "chance": [repr(float(al.disorder)) for al in res.chance_alignments],
                "gamma": repr(float(res.gamma)), "gamma_cat": repr(float(res.gamma_cat)),
                "gamma_k": repr(float(res.gamma_k("x")))}
    return driver


def baseline(dc):
    with serial_pool():
        return make_driver({k: v for k, v in dc.items() if k != "pre"})()


def configs(tier):
    out = []
    dcs = driver_configs()
    for i, dc in enumerate(dcs):
        for W in (1, 2, 3):
            if dc.get("big") or dc.get("crowded") or dc.get("pre"):
                if W != 2:
                    continue
                bound = 1
            elif tier == "quick":
                bound = 2 if (W == 2 and i < 6) else 1
            else:
                bound = 3 if W == 2 else 2
            out.append({"dc": dc, "W": W, "bound": bound})
    return out


def run_schedule(cfg, choices, horizon=400):
    from .. import sched
    ch = Chooser(choices, horizon)
    val, s = sched.run_controlled(make_driver(cfg["dc"]), ch, cfg["W"])
    return ch, val, s


def shards(tier, seed):
    from .. import sched
    sched.install()
    tasks = []
    for cfg in configs(tier):
        # roots: all prefixes of depth 3 within the bound
        def run_fn(ch, cfg=cfg):
            v, s = sched.run_controlled(make_driver(cfg["dc"]), ch, cfg["W"])
            return v
        roots = []
        for choices, ch, obs, cut in explore(run_fn, bound=cfg["bound"], horizon=400, branch_until=4):
            roots.append(choices[:4])
        for r in roots:
            tasks.append({"cfg": cfg, "root": r})
    for tc in tlc_configs(tier):
        tasks.append({"tlc": tc})
    hs = ["0", "1", "2", "3", "random"]
    for i, hseed in enumerate(hs):
        for cpus in (1, 2, 16):
            tasks.append({"free": {"hashseed": hseed, "cpus": cpus}})
    return tasks


def run(task):
    res = {"evaluations": 0, "transitions": 0, "traces": 0, "state_set": [], "nontrivial": [], "outcomes": [],
           "samples": [], "violations": [], "unspecified": 0, "horizon_hits": 0, "replayed_twice": 0,
           "extra": {"job_visible_operations": 0, "free_running_processes": 0}}
    if "free" in task:
        return run_free(task["free"], res)
    if "tlc" in task:
        return run_tlc_task(task["tlc"], res)
    from .. import sched
    sched.install()
    cfg = task["cfg"]
    base = baseline(cfg["dc"])
    state = {}

    def run_fn(ch):
        v, s = sched.run_controlled(make_driver(cfg["dc"]), ch, cfg["W"])
        state["s"] = s
        return v

    def verdict(val, s):
        probs = []
        if val != base:
            diff = {k: (base[k], val.get(k) if val else None) for k in base if not val or val.get(k) != base[k]}
            probs.append(f"result differs from the sequential baseline under this schedule: {diff}")
        for r in s.races[:1]:
            probs.append("unordered accesses (happens-before): " + r)
        return probs

    try:
        for choices, ch, val, cut in explore(run_fn, bound=cfg["bound"], horizon=400, root=task["root"]):
            res["evaluations"] += 1
            res["transitions"] += len(ch.trace)
            if cut:
                res["horizon_hits"] += 1
                continue
            s = state["s"]
            res["traces"] += 1
            res["extra"]["job_visible_operations"] += s.job_visible_ops
            key = h([cfg, choices])
            res["state_set"].append(key)
            res["outcomes"].append(h([(t, l) for t, l, n in s.events]))
            if any(choices):
                res["nontrivial"].append(key)
            if len(res["samples"]) < 2 and sum(1 for c in choices if c) >= 1:
                res["samples"].append({"config": cfg, "schedule_choices": choices,
                                       "events": [f"{t}:{l}->{n}" for t, l, n in s.events][:14], "result": val})
            probs = verdict(val, s)
            if probs:
                again = []
                for _ in range(2):
                    ch2, v2, s2 = run_schedule(cfg, choices)
                    again.append(verdict(v2, s2))
                    res["replayed_twice"] += 1
                if again[0] != probs or again[1] != probs:
                    raise Diverged(f"C06 verdict not reproducible for schedule {choices} of {cfg}: {probs} / {again}")
                res["violations"].append({"msg": probs[0], "case": {"cfg": cfg, "choices": choices},
                                          "sig": h([probs[0][:50], cfg["dc"], cfg["W"]])})
    except Exception as e:  # noqa
        from ..sched import Deadlock
        if isinstance(e, Deadlock):
            res["violations"].append({"msg": f"deadlock: {e}", "case": {"cfg": cfg, "choices": list(task["root"])}})
        else:
            raise
    return res


FREE_SCRIPT = r'''
import os, sys, json, threading
cpus = int(sys.argv[1])
os.cpu_count = lambda: cpus
sys.path.insert(0, sys.argv[2]); sys.path.insert(0, sys.argv[3])
import warnings; warnings.filterwarnings("ignore")
import logging; logging.getLogger().setLevel(logging.CRITICAL)
from mc.load import load
pa = load()
from mc.props import c06
from mc import sched
events = sched.install_free_monitor()
out = []
for rep in range(2):
    for dc in c06.driver_configs():
        out.append(c06.make_driver(dc)())
print("C06FREE " + json.dumps({"results": out, "events": sorted(set(events))[:20]}))
'''


def run_free(free, res):
    env = dict(os.environ)
    if free["hashseed"] == "random":
        env.pop("PYTHONHASHSEED", None)
        env["PYTHONHASHSEED"] = "random"
    else:
        env["PYTHONHASHSEED"] = free["hashseed"]
    env["VERIF_REPO"] = REPO
    p = subprocess.run([sys.executable, "-W", "ignore", "-c", FREE_SCRIPT, str(free["cpus"]), REPO, VERIF],
                       capture_output=True, text=True, env=env, timeout=900, cwd=VERIF)
    line = [l for l in p.stdout.splitlines() if l.startswith("C06FREE ")]
    res["evaluations"] += 1
    res["extra"]["free_running_processes"] += 1
    key = h(["free", free])
    res["state_set"].append(key)
    if not line:
        res["violations"].append({"msg": f"free-running driver failed (PYTHONHASHSEED={free['hashseed']}, "
                                         f"cpu_count={free['cpus']}): {p.stderr[-300:]}", "case": {"free": free}})
        return res
    data = json.loads(line[0][len("C06FREE "):])
    dcs = driver_configs()
    base = [baseline(dc) for dc in dcs]
    res["transitions"] += len(data["results"])
    res["traces"] += len(data["results"])
    for i, r in enumerate(data["results"]):
        b = base[i % len(dcs)]
        if r != b:
            diff = {k: (b[k], r.get(k)) for k in b if r.get(k) != b[k]}
            res["violations"].append({
                "msg": f"free-running result (PYTHONHASHSEED={free['hashseed']}, cpu_count={free['cpus']}, repetition "
                       f"{i // len(dcs) + 1}, {dcs[i % len(dcs)]}) differs from the sequential baseline: {diff}",
                "case": {"free": free}, "sig": h(["free-diff", i % len(dcs)])})
            break
    for ev in data["events"][:1]:
        res["violations"].append({"msg": f"free-running pass (cpu_count={free['cpus']}): {ev}", "case": {"free": free},
                                  "sig": h(["free-ev", ev[:40]])})
    res["outcomes"].append(h(data["results"]))
    res["nontrivial"].append(key)
    return res


def tlc_configs(tier):
    out = [{"n": 2, "prec": None, "W": 2, "sampler": "stat"}, {"n": 2, "prec": None, "W": 1, "sampler": "stat"}]
    if tier == "thorough":
        out += [{"n": 2, "prec": None, "W": 3, "sampler": "stat"}, {"n": 3, "prec": None, "W": 2, "sampler": "shuffle"},
                {"n": 2, "prec": 0.5, "W": 2, "sampler": "shuffle"}]
    return out


def gamma_only_driver(tc, seed=5):
    from ..load import load
    pa = load()
    d = A.DISSIMS.get(RECIPE)

    def driver():
        np.random.seed(seed)
        c = build_continuum(REF)
        s = None if tc["sampler"] == "stat" else pa.ShuffleContinuumSampler()
        res = c.compute_gamma(d, n_samples=tc["n"], precision_level=tc["prec"], sampler=s)
        return {"observed": repr(float(res.observed_disorder)),
                "chance": [repr(float(al.disorder)) for al in res.chance_alignments], "gamma": repr(float(res.gamma))}
    return driver


def run_tlc_task(tc, res):
    """E5: every maximal path of the TLC state graph replayed on the implementation, enabled sets compared at
    every scheduling point; path count compared with E1's own enumeration of the same driver."""
    from .. import sched, tlc
    sched.install()
    drv = gamma_only_driver(tc)
    with serial_pool():
        base = drv()
    J1 = tc["n"] + 1
    J2 = len(base["chance"]) - tc["n"]
    graph = tlc.run_tlc(J1, J2, tc["W"])
    paths = tlc.maximal_paths(graph)
    res["extra"]["tlc_distinct_states"] = graph["distinct"]
    res["extra"]["tlc_paths"] = len(paths)
    case = {"tlc": tc}
    bad = 0
    for path in paths:
        pc = tlc.PathChooser(graph, path)
        res["evaluations"] += 1
        try:
            val, s = sched.run_controlled(drv, pc, tc["W"])
        except Exception as e:  # noqa
            bad += 1
            if bad == 1:
                res["extra"]["tlc_conformance_failure"] = f"{tc}: {pc.mismatch or e}"
            continue
        if pc.i != len(path):
            bad += 1
            res["extra"].setdefault("tlc_conformance_failure", f"{tc}: implementation finished after {pc.i} of "
                                                                f"{len(path)} model steps")
            continue
        res["traces"] += 1
        res["transitions"] += len(path)
        res["state_set"].append(h(["tlc", tc, [l for l, _, _ in path]]))
        if val != base or s.races:
            res["violations"].append({"msg": f"model path {[l for l, _, _ in path]} gives {val} (baseline {base}), "
                                             f"races {s.races[:1]}", "case": case})
    # E1's own count for the same driver
    count = 0

    def run_fn(ch):
        v, s = sched.run_controlled(drv, ch, tc["W"])
        return v
    for choices, ch, val, cut in explore(run_fn, bound=None, horizon=400):
        count += 1
        res["evaluations"] += 1
        res["transitions"] += len(ch.trace)
        res["state_set"].append(h(["e1-unbounded", tc, choices]))
        if val != base:
            res["violations"].append({"msg": f"schedule {choices} gives {val}, baseline {base}", "case": case})
    res["extra"]["e1_unbounded_schedules"] = count
    if count != len(paths) and "tlc_conformance_failure" not in res["extra"]:
        res["extra"]["tlc_conformance_failure"] = f"{tc}: TLC has {len(paths)} maximal paths, E1 enumerates {count} schedules"
    res["extra"]["tlc_paths_replayed_ok"] = len(paths) - bad
    res["nontrivial"] += res["state_set"][:]
    return res


def finalize(cov):
    if cov.get("tlc_conformance_failure"):
        # the pool protocol of the code no longer matches mc/tla/Pool.tla.tmpl: not a verdict on the property
        # (E1 on the real code decides), but it is printed so that the model gets re-bound to the code
        print("# NOTE model/implementation conformance (E5):", cov["tlc_conformance_failure"])
    return []


def replay(case):
    res = {"evaluations": 0, "transitions": 0, "traces": 0, "state_set": [], "nontrivial": [], "outcomes": [],
           "samples": [], "violations": [], "unspecified": 0, "extra": {"free_running_processes": 0}}
    if "free" in case:
        return run_free(case["free"], res)["violations"][:1]
    if "tlc" in case:
        return run_tlc_task(case["tlc"], res)["violations"][:1]
    from .. import sched
    sched.install()
    cfg = case["cfg"]
    base = baseline(cfg["dc"])
    try:
        ch, val, s = run_schedule(cfg, case["choices"])
    except sched.Deadlock as e:
        return [{"msg": f"deadlock: {e}", "case": case}]
    out = []
    if val != base:
        out.append({"msg": f"result {val} differs from the sequential baseline {base}", "case": case})
    for r in s.races[:1]:
        out.append({"msg": "unordered accesses: " + r, "case": case})
    return out[:1]
