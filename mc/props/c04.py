"""C04 - built-in dissimilarities compute their documented formula in both forms.

E3 over unit pairs x configurations: for every class and parameterisation, every ordered pair of
units (12 segments x labels) is evaluated through d(u, v) and through the compiled form
(UnitaryAlignment([(a,u),(b,v)]).compute_disorder(d), batched through Alignment.compute_disorder
for bulk) and compared with the documented formula; symmetry, non-negativity, zero on identical
units; categorical values depend only on the two names (not on supplied order, not on K).
"""
import itertools

import numpy as np

from ..oracles import pos_value, close, lev_distance
from ..runner import h
from ..spec import build_dissim, to_unit

ID = "C04"
TASK_TIMEOUT = 900.0
META = {
    "rule": "case = (dissimilarity configuration, ordered pair of units); non-trivial = distinct cases with two "
            "different units and a non-zero expected value; outcomes = distinct values",
    "assumptions": ["Levenshtein: only consistency, symmetry, zero-iff-same-name and independence from K / order are "
                    "asserted (the normalisation is not part of the statement); ordinal / numerical: proportionality "
                    "to the position distance and independence from the supplied order",
                    "combined: alpha*positional + beta*categorical where the categorical term is the value of a "
                    "fresh component built with delta_empty 1 times the combined dissimilarity's delta_empty; a "
                    "positional component supplied by the caller keeps its own delta_empty",
                    "float32 vs float64 agreement within 1e-4 relative"],
    "explanation": "explicit enumeration of dissimilarity configurations x unit pairs, three-way comparison "
                   "(formula, d(), compiled form)",
}

SEGS = [(s, e) for s in range(4) for e in range(s + 1, 5)] + [(0.5, 2.25), (1.125, 3.75)]


def pre_value(i, j):
    return 0.0 if i == j else (((i + j) * abs(i - j)) % 13 + 1) / 14.0


def pre_recipe(K, de=1.0):
    labels = [f"c{i:03d}" for i in range(K)]
    return {"k": "pre", "labels": labels, "matrix": [[pre_value(i, j) for j in range(K)] for i in range(K)], "de": de}


def gen_labels(K):
    # distinct strings of varying length over a 3-letter alphabet
    out = []
    for n in range(1, 7):
        for t in itertools.product("abc", repeat=n):
            out.append("".join(t))
            if len(out) == K:
                return out
    return out


def compiled_values(pa, d, pairs):
    """compiled form for a batch of (u, v) pairs of unit triples"""
    uas = [pa.UnitaryAlignment([("a", to_unit(u)), ("b", to_unit(v))]) for u, v in pairs]
    al = pa.Alignment(uas)
    al.compute_disorder(d)
    return [float(ua.disorder) for ua in uas]


def continuum_value(pa, d, u, v):
    """The value used when aligning a continuum: a: [u], b: [v] - the continuum's own category set holds only the
    two labels in use (usually a strict subset of the dissimilarity's).  None when (u, v) is not a candidate."""
    from pyannote.core import Segment
    c = pa.Continuum()
    c.add("a", Segment(u[0], u[1]), u[2])
    c.add("b", Segment(v[0], v[1]), v[2])
    dis, idx = d.valid_alignments(c)
    for x, row in zip(np.asarray(dis), np.asarray(idx)):
        if int(row[0]) == 0 and int(row[1]) == 0:
            return float(x)
    return None


def check_pairs(pa, res, cfg_name, recipe, d, pairs, formula, flags=("sym", "zero")):
    """pairs: list of (u, v).  formula(u, v) -> float | None"""
    try:
        comp = compiled_values(pa, d, pairs)
        for u, v in pairs:
            d.d(to_unit(u), to_unit(v))
    except Exception as e:  # noqa - the library raised on a legal configuration
        res["evaluations"] += 1
        res["transitions"] += 1
        res["traces"] += 1
        res["state_set"].append(h([cfg_name, "raised"]))
        res["violations"].append({"msg": f"[{cfg_name}] evaluating the dissimilarity raised {type(e).__name__}: {e}",
                                  "case": {"cfg": cfg_name, "recipe": recipe}, "sig": h([cfg_name, "raised"])})
        return
    for k, ((u, v), cv) in enumerate(zip(pairs, comp)):
        res["evaluations"] += 1
        res["transitions"] += 2
        res["traces"] += 1
        key = h([cfg_name, u, v])
        res["state_set"].append(key)
        dv = float(d.d(to_unit(u), to_unit(v)))
        want = formula(u, v) if formula else None
        msg = None
        if want is not None and not close(dv, want):
            msg = f"d({u}, {v}) = {dv} but the documented formula gives {want}"
        elif not close(cv, dv):
            msg = f"compiled form gives {cv} for ({u}, {v}) but d() gives {dv}"
        elif dv < 0 or cv < 0:
            msg = f"negative dissimilarity {dv} / {cv} for ({u}, {v})"
        elif u == v and (dv != 0 or cv != 0):
            msg = f"identical units {u} have dissimilarity {dv} / {cv}"
        else:
            back = float(d.d(to_unit(v), to_unit(u)))
            if not close(back, dv):
                msg = f"not symmetric: d({u},{v}) = {dv}, d({v},{u}) = {back}"
        if msg is None and (k % max(1, len(pairs) // 150) == 0 or (u[2] != v[2] and k % 7 == 0 and k < 2000)):
            # the form used when a continuum is aligned (candidate table of a: [u], b: [v])
            res["transitions"] += 1
            cut = 2 * float(d.delta_empty)
            try:
                cval = continuum_value(pa, d, u, v)
            except Exception as e:  # noqa
                cval = f"{type(e).__name__}: {e}"
            if isinstance(cval, str):
                msg = f"candidate table of the continuum a: [{u}], b: [{v}] raised {cval}"
            elif cval is None:
                if dv < cut - 1e-5:
                    msg = f"({u}, {v}) is missing from the candidate table of the continuum a: [u], b: [v] although d() = {dv} <= {cut}"
            elif not close(cval, dv):
                msg = f"the candidate table of the continuum a: [{u}], b: [{v}] uses {cval} but d() gives {dv}"
        if k % 50 == 0 and msg is None:
            # the property's own observation point, unbatched
            one = float(pa.UnitaryAlignment([("a", to_unit(u)), ("b", to_unit(v))]).compute_disorder(d))
            res["transitions"] += 1
            if not close(one, dv):
                msg = f"UnitaryAlignment.compute_disorder gives {one} for ({u}, {v}) but d() gives {dv}"
        if msg:
            res["violations"].append({"msg": f"[{cfg_name}] {msg}", "case": {"cfg": cfg_name, "recipe": recipe,
                                                                           "u": u, "v": v},
                                      "sig": h([cfg_name, msg.split(' ')[0], len(res["violations"]) // 3])})
        else:
            res["outcomes"].append(round(dv, 6))
            if u != v and dv > 0:
                res["nontrivial"].append(key)
                if len(res["samples"]) < 2 and want is not None:
                    res["samples"].append({"configuration": cfg_name, "u": u, "v": v, "formula": want, "d": dv,
                                           "compiled": cv})


def seg_pairs(labels_u, labels_v=None):
    labels_v = labels_v or labels_u
    return [((s1, e1, l1), (s2, e2, l2)) for (s1, e1) in SEGS for (s2, e2) in SEGS for l1 in labels_u for l2 in labels_v]


def label_pairs(labels, seg=(0, 2)):
    return [((seg[0], seg[1], a), (1, 3, b)) for a in labels for b in labels] + \
           [((seg[0], seg[1], a), (seg[0], seg[1], a)) for a in labels]


# ----------------------------------------------------------------------------- configurations

def configs(tier):
    out = []
    for de in (1.0, 0.35, 2.5):
        out.append(("pos", {"de": de}))
    for de in (1.0, 0.5):
        out.append(("abs", {"de": de}))
    Ks = [1, 2, 3, 127, 128, 129, 200, 300]
    for K in Ks:
        out.append(("pre", {"K": K, "de": 1.0 if K != 3 else 0.5}))
    out.append(("lev", {"K": 6}))
    out.append(("lev", {"K": 129}))
    out.append(("lev", {"K": 300}))
    out.append(("lev_chars", {}))
    out.append(("ord", {}))
    out.append(("num", {}))
    out.append(("caller_mutates", {"tag": "m"}))
    out.append(("process_state", {"tag": "p"}))
    out.append(("process_state", {"tag": "q", "reverse": True}))
    for a, b, de in itertools.product((0.0, 1.0, 3.0), (0.0, 1.0, 2.0), (1.0, 0.5, 2.0)):
        if tier == "quick" and (a, b) in ((0.0, 0.0), (3.0, 2.0) if de == 1.0 else ()):
            continue
        out.append(("comb", {"a": a, "b": b, "de": de}))
    return out


def shards(tier, seed):
    return [{"kind": k, "p": p, "tier": tier} for k, p in configs(tier)]


def run(task):
    from ..load import load
    pa = load()
    res = {"evaluations": 0, "transitions": 0, "traces": 0, "state_set": [], "nontrivial": [], "outcomes": [],
           "samples": [], "violations": [], "unspecified": 0, "extra": {}}
    kind, p = task["kind"], task["p"]
    getattr(Runner(pa, res, task["tier"]), "run_" + kind)(**p)
    # keep the violation list short (one configuration can fail on thousands of pairs)
    res["violations"] = res["violations"][:6]
    return res


class Runner:
    def __init__(self, pa, res, tier):
        self.pa, self.res, self.tier = pa, res, tier

    def run_pos(self, de):
        r = {"k": "pos", "de": de}
        d = build_dissim(r)
        check_pairs(self.pa, self.res, f"pos de={de}", r, d, seg_pairs([None, "x"], ["x"]),
                    lambda u, v: pos_value(u, v) * de)

    def run_abs(self, de):
        r = {"k": "abs", "de": de}
        d = build_dissim(r)
        check_pairs(self.pa, self.res, f"abs de={de}", r, d, label_pairs([None, "", "x", "y", "z"]) +
                    seg_pairs(["x"], ["x", "y"])[:60],
                    lambda u, v: (0.0 if u[2] == v[2] else 1.0) * de)

    def run_pre(self, K, de):
        r = pre_recipe(K, de)
        d = build_dissim(r)
        labels = r["labels"]
        if K <= 129:
            idx = [(i, j) for i in range(K) for j in range(K)]
        else:
            band = sorted(set([0, 1, 2, K - 1, K - 2] + list(range(124, 133)) + [K // 2, 255, 256, 257]) & set(range(K)))
            idx = [(i, j) for i in band for j in band]
        pairs = [((0, 2, labels[i]), (1, 3, labels[j])) for i, j in idx]
        val = {(labels[i], labels[j]): pre_value(i, j) for i, j in idx}
        check_pairs(self.pa, self.res, f"pre K={K} de={de}", {"k": "pre", "K": K, "de": de}, d, pairs,
                    lambda u, v: val[(u[2], v[2])] * de)

    def run_lev(self, K):
        labels = ["kitten", "sitting", "mitten", "a", "ab", "abc"] if K == 6 else gen_labels(K)
        r = {"k": "lev", "labels": labels}
        d = build_dissim(r)
        # reference values from a small alphabet built in another order: same two names => same value
        small = ["abc", "a", "ab"] if K != 6 else ["mitten", "kitten"]
        d_small = build_dissim({"k": "lev", "labels": small})
        if K <= 129:
            sel = labels
        else:
            sel = labels[:3] + labels[120:135] + labels[-3:]
        pairs = [((0, 2, a), (1, 3, b)) for a in sel for b in sel]

        def formula(u, v):
            return None
        check_pairs(self.pa, self.res, f"lev K={K}", {"k": "lev", "K": K}, d, pairs, formula)
        for a in small:
            for b in small:
                self.res["evaluations"] += 1
                self.res["transitions"] += 2
                self.res["traces"] += 1
                v1 = float(d.d(to_unit((0, 1, a)), to_unit((0, 1, b))))
                v2 = float(d_small.d(to_unit((0, 1, a)), to_unit((0, 1, b))))
                if not close(v1, v2):
                    self.res["violations"].append({
                        "msg": f"[lev K={K}] d('{a}','{b}') = {v1} with {K} categories but {v2} with categories {small}",
                        "case": {"cfg": "lev", "K": K, "a": a, "b": b}})
        # zero iff same name, larger edit distance at equal lengths => not smaller
        for a in sel[:40]:
            for b in sel[:40]:
                v = float(d.d(to_unit((0, 1, a)), to_unit((0, 1, b))))
                if (v == 0) != (a == b):
                    self.res["violations"].append({"msg": f"[lev K={K}] d('{a}','{b}') = {v}",
                                                   "case": {"cfg": "lev", "K": K, "a": a, "b": b}})

    def run_lev_chars(self):
        """Edit distance is counted in characters: two pairs of names with the same lengths and the same character edit
        distance get the same value, whatever the characters are (accents, CJK, astral code points, combining marks)."""
        labels = ["deja", "déjà", "dxjy", "naive", "naïve", "naxve", "日本語", "abc", "ab𝄞", "abd", "e\u0301", "ex", "ey"]
        r = {"k": "lev", "labels": labels}
        d = build_dissim(r)
        pairs = [((0, 2, a), (1, 3, b)) for a in labels for b in labels]
        check_pairs(self.pa, self.res, "lev characters", r, d, pairs, None)
        groups = {}
        for a in labels:
            for b in labels:
                sig = (max(len(a), len(b)), min(len(a), len(b)), lev_distance(a, b))
                v = float(d.d(to_unit((0, 2, a)), to_unit((1, 3, b))))
                self.res["evaluations"] += 1
                self.res["transitions"] += 1
                self.res["traces"] += 1
                if sig in groups and not close(groups[sig][0], v):
                    self.res["violations"].append({
                        "msg": f"[lev characters] d({a!r},{b!r}) = {v} but d{groups[sig][1]} = {groups[sig][0]}: both pairs have "
                               f"lengths {sig[:2]} and character edit distance {sig[2]}",
                        "case": {"cfg": "lev_chars", "a": a, "b": b}, "sig": h(["levchars", a, b])})
                groups.setdefault(sig, (v, (a, b)))

    def _ordinal_family(self, name, labels, positions, make):
        """every joint permutation of (label, position): identical values, proportional to |pa - pb|"""
        pa_ = self.pa
        base = None
        perms = list(itertools.permutations(range(len(labels))))
        for perm in perms:
            labs = [labels[i] for i in perm]
            pos = [positions[i] for i in perm]
            try:
                d, recipe = make(labs, pos)
            except Exception as e:  # noqa
                self.res["violations"].append({"msg": f"[{name}] constructing with labels {labs} raised "
                                                      f"{type(e).__name__}: {e}", "case": {"cfg": name, "labels": labs}})
                continue
            pairs = label_pairs(labs)
            cfgname = f"{name} order={labs}"
            check_pairs(pa_, self.res, cfgname, recipe, d, pairs, None)
            vals = {(a, b): float(d.d(to_unit((0, 2, a)), to_unit((1, 3, b)))) for a in labs for b in labs}
            p = dict(zip(labs, pos))
            # proportionality to the distance of positions (within one instance)
            ref = None
            for (a, b), v in vals.items():
                dist = abs(p[a] - p[b])
                self.res["evaluations"] += 1
                self.res["transitions"] += 1
                self.res["traces"] += 1
                if dist == 0:
                    if v != 0:
                        self.res["violations"].append({"msg": f"[{cfgname}] d({a},{b}) = {v} for equal positions",
                                                       "case": {"cfg": name, "labels": labs, "p": pos}})
                    continue
                ratio = v / dist
                if ref is None:
                    ref = ratio
                if not close(ratio, ref) or ratio <= 0:
                    self.res["violations"].append({
                        "msg": f"[{cfgname}] not proportional to the distance of positions: d({a},{b}) = {v} for "
                               f"positions {p[a]}, {p[b]} (ratio {ratio}, elsewhere {ref})",
                        "case": {"cfg": name, "labels": labs, "p": pos}, "sig": h([name, "prop", labs])})
                    break
            if base is None:
                base = vals
            else:
                for kk, v in vals.items():
                    if not close(v, base[kk]):
                        self.res["violations"].append({
                            "msg": f"[{cfgname}] d{kk} = {v} but {base[kk]} when the labels are supplied as "
                                   f"{[labels[i] for i in perms[0]]}",
                            "case": {"cfg": name, "labels": labs, "p": pos}, "sig": h([name, "order", labs])})
                        break

    def run_ord(self):
        for labels, positions in ((["low", "mid", "high"], [0.0, 1.0, 2.0]), (["b", "a"], [0.0, 1.0]),
                                  (["low", "mid", "high", "top"], [0.0, 1.0, 2.0, 3.0]),
                                  (["n", "m", "z"], [1.0, 2.0, 10.0]), (["q", "r", "s", "t"], [0.5, 0.5, 4.0, -3.0])):
            default = positions == [float(i) for i in range(len(labels))]

            def make(labs, pos, default=default, labels=labels):
                if default and labs == labels:
                    r = {"k": "ord", "labels": labs}
                else:
                    r = {"k": "ord", "labels": labs, "p": pos}
                return build_dissim(r), r
            self._ordinal_family(f"ord {labels}", labels, positions, make)

    def run_num(self):
        labels = ["1", "2", "10", "3.5"]

        def make(labs, pos):
            r = {"k": "num", "labels": labs}
            return build_dissim(r), r
        self._ordinal_family("num", labels, [float(x) for x in labels], make)
        from sortedcontainers import SortedSet
        d = self.pa.NumericalCategoricalDissimilarity(SortedSet(labels))
        d2 = build_dissim({"k": "num", "labels": labels})
        for a in labels:
            for b in labels:
                v1 = float(d.d(to_unit((0, 1, a)), to_unit((0, 1, b))))
                v2 = float(d2.d(to_unit((0, 1, a)), to_unit((0, 1, b))))
                self.res["evaluations"] += 1
                self.res["transitions"] += 2
                self.res["traces"] += 1
                if not close(v1, v2):
                    self.res["violations"].append({"msg": f"[num SortedSet] d({a},{b}) = {v1} but {v2} from a list",
                                                   "case": {"cfg": "num-sortedset", "a": a, "b": b}})

    def run_process_state(self, tag, reverse=False):
        """Process-level state: pairs of configurations that share part of their description (same labels, other
        positions / matrix / delta_empty; same parameters, other component) are built one after the other in the
        same process, then BOTH are evaluated - a kernel or matrix cached under a too coarse key would be served to
        the second instance.  `tag` makes the label names unique per task, `reverse` swaps the construction order."""
        L3 = [f"{tag}n", f"{tag}m", f"{tag}z"]
        L4 = [f"{tag}a", f"{tag}b", f"{tag}c", f"{tag}d"]
        m1 = [[0.0, 0.2, 0.9], [0.2, 0.0, 0.5], [0.9, 0.5, 0.0]]
        m2 = [[0.0, 0.7, 0.1], [0.7, 0.0, 0.3], [0.1, 0.3, 0.0]]
        pairs = [
            ({"k": "ord", "labels": L3, "p": [1.0, 2.0, 10.0]}, {"k": "ord", "labels": L3, "p": [5.0, 0.0, 1.0]}),
            ({"k": "ord", "labels": L3}, {"k": "ord", "labels": [L3[2], L3[0], L3[1]]}),
            ({"k": "ord", "labels": L4, "de": 1.0}, {"k": "ord", "labels": L4, "de": 0.25}),
            ({"k": "pre", "labels": L3, "matrix": m1}, {"k": "pre", "labels": L3, "matrix": m2}),
            ({"k": "pre", "labels": L3, "matrix": m1, "de": 2.0}, {"k": "pre", "labels": L3, "matrix": m1, "de": 0.5}),
            ({"k": "lev", "labels": L4, "de": 1.0}, {"k": "lev", "labels": L4, "de": 3.0}),
            ({"k": "lev", "labels": L4}, {"k": "lev", "labels": L4 + [f"{tag}abcd"]}),
            ({"k": "num", "labels": ["1", "2", "10"]}, {"k": "num", "labels": ["1", "2", "10", "40"]}),
            ({"k": "pos", "de": 1.0}, {"k": "pos", "de": 0.125}),
            ({"k": "abs", "de": 1.0}, {"k": "abs", "de": 0.125}),
            ({"k": "comb", "a": 1.0, "b": 1.0, "de": 1.0, "cat": {"k": "ord", "labels": L3}},
             {"k": "comb", "a": 1.0, "b": 1.0, "de": 1.0, "cat": {"k": "pre", "labels": L3, "matrix": m2}}),
            ({"k": "comb", "a": 1.0, "b": 1.0, "de": 1.0}, {"k": "comb", "a": 1.0, "b": 1.0, "de": 0.5}),
            ({"k": "comb", "a": 2.0, "b": 1.0, "de": 1.0}, {"k": "comb", "a": 1.0, "b": 2.0, "de": 1.0}),
        ]
        from ..oracles import pair_fn
        for ra, rb in pairs:
            if reverse:
                ra, rb = rb, ra
            da = build_dissim(ra)
            db = build_dissim(rb)
            for r, d in ((rb, db), (ra, da), (rb, db)):
                labs = r.get("labels") or (r.get("cat") or {}).get("labels") or ["x", "y", None]
                if r["k"] == "num":
                    labs = r["labels"]
                pairs_uv = [((s1, e1, l1), (s2, e2, l2)) for (s1, e1) in SEGS[::4] for (s2, e2) in SEGS[1::5]
                            for l1 in labs for l2 in labs]
                try:
                    f, _ = pair_fn(r)
                except Exception:  # noqa
                    f = None
                if r["k"] in ("lev",) or (r["k"] == "comb" and (r.get("cat") or {}).get("k") == "lev"):
                    f = None
                check_pairs(self.pa, self.res, f"process-state {r['k']} {('p=' + str(r['p'])) if 'p' in r else ''} "
                                               f"de={r.get('de', 1.0)} after {'B' if r is ra else 'A'}", r, d, pairs_uv, f)

    def run_caller_mutates(self, tag):
        """The label collection handed to a label-derived dissimilarity is the caller's object (typically the live
        continuum.categories): adding a label to it afterwards - one that sorts FIRST - must not change the values
        for the original names."""
        from sortedcontainers import SortedSet
        labels = [f"{tag}cart", f"{tag}cat", f"{tag}dog"]
        nums = ["2", "5", "30"]
        for kind, labs, newlab in (("lev", labels, f"{tag}aaa"), ("ord", labels, f"{tag}aaa"), ("num", nums, "1")):
            live = SortedSet(labs)
            if kind == "lev":
                d = self.pa.LevenshteinCategoricalDissimilarity(live)
            elif kind == "ord":
                d = self.pa.OrdinalCategoricalDissimilarity(live)
            else:
                d = self.pa.NumericalCategoricalDissimilarity(live)
            before = {(a, b): float(d.d(to_unit((0, 2, a)), to_unit((1, 3, b)))) for a in labs for b in labs}
            live.add(newlab)  # the caller's continuum got a new category
            pairs = [((0, 2, a), (1, 3, b)) for a in labs for b in labs]
            check_pairs(self.pa, self.res, f"caller-mutates {kind}", {"k": kind, "labels": labs}, d, pairs,
                        lambda u, v, before=before: before[(u[2], v[2])])

    def run_comb(self, a, b, de):
        labels = ["x", "y", "z"]
        comps = [("cat default", None), ("cat abs same de", {"k": "abs", "de": de}),
                 ("cat abs other de", {"k": "abs", "de": 1.5}),
                 ("cat ord same de", {"k": "ord", "labels": labels, "de": de}),
                 ("cat ord other de", {"k": "ord", "labels": labels, "de": 0.25}),
                 ("cat pre other de", dict(pre_recipe(3, 0.5), labels=labels))]
        poss = [("pos default", None), ("pos same de", {"k": "pos", "de": de}), ("pos other de", {"k": "pos", "de": 0.75})]
        if self.tier == "quick":
            combos = [(c, poss[0]) for c in comps] + [(comps[0], p) for p in poss[1:]] + [(comps[4], poss[2])]
        else:
            combos = list(itertools.product(comps, poss))
        for (cname, cat), (pname, pos) in combos:
            r = {"k": "comb", "a": a, "b": b, "de": de}
            if cat is not None:
                r["cat"] = cat
            if pos is not None:
                r["pos"] = pos
            d = build_dissim(r)
            # categorical term: a fresh component of the same kind with delta_empty 1
            if cat is None or cat["k"] == "abs":
                unit_cat = lambda u, v: 0.0 if u[2] == v[2] else 1.0  # noqa
            else:
                fresh = build_dissim(dict(cat, de=1.0))
                unit_cat = lambda u, v, fresh=fresh: float(fresh.d(to_unit(u), to_unit(v)))  # noqa
            pos_de = de if pos is None else pos["de"]

            def formula(u, v):
                return a * pos_value(u, v) * pos_de + b * unit_cat(u, v) * de
            labs = ["x", "y", "z"] if cat is not None and cat["k"] != "abs" else ["x", "y", None]
            pairs = [((s1, e1, l1), (s2, e2, l2)) for (s1, e1) in SEGS[::2] for (s2, e2) in SEGS[1::3]
                     for l1 in labs for l2 in labs] + [((0, 2, l), (0, 2, l)) for l in labs]
            check_pairs(self.pa, self.res, f"comb a={a} b={b} de={de} {cname} {pname}", r, d, pairs, formula)
            if float(d.delta_empty) != np.float32(de):
                self.res["violations"].append({"msg": f"combined dissimilarity built with delta_empty {de} reports "
                                                      f"{d.delta_empty}", "case": {"cfg": "comb", "recipe": r}})


def replay(case):
    from ..load import load
    pa = load()
    res = {"evaluations": 0, "transitions": 0, "traces": 0, "state_set": [], "nontrivial": [], "outcomes": [],
           "samples": [], "violations": [], "unspecified": 0, "extra": {}}
    name = case.get("cfg", "")
    R = Runner(pa, res, "thorough")
    if name.startswith("pos"):
        R.run_pos(case["recipe"]["de"])
    elif name.startswith("abs"):
        R.run_abs(case["recipe"]["de"])
    elif name.startswith("pre"):
        R.run_pre(case["recipe"]["K"], case["recipe"]["de"])
    elif name.startswith("lev"):
        R.run_lev(case.get("K") or case["recipe"]["K"])
    elif name.startswith("ord"):
        R.run_ord()
    elif name.startswith("num"):
        R.run_num()
    elif name.startswith("caller-mutates"):
        R.run_caller_mutates("m")
    elif name.startswith("process-state"):
        R.run_process_state("p")
        R.run_process_state("q", reverse=True)
    elif name.startswith("comb"):
        r = case["recipe"]
        R.run_comb(r["a"], r["b"], r["de"])
    return res["violations"][:1]
