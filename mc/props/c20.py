"""C20 - command-line results equal the API results for the same options.

Deviation-bounded option lattice: every combination of CLI options with at most 2 (thorough: 3)
options off the base point, plus the full product of -d x output x -c x -k x -m.  The CLI entry
point is called in-process (sys.argv set, stdout captured); oracle = the API called with
equivalent arguments in the same process state; spies show that each option takes effect.
"""
import ast
import contextlib
import csv
import inspect
import io
import itertools
import json
import os
import shutil
import sys
import tempfile

import numpy as np

from ..oracles import close as _close


def close(a, b, tol=1e-6):
    """the CLI must report the API's number: NaN reported for NaN counts as the same number"""
    a, b = float(a), float(b)
    return (a != a and b != b) or _close(a, b, tol)
from ..runner import h
from ..serial import serial_pool

ID = "C20"
TASK_TIMEOUT = 1500.0
META = {
    "rule": "case = one CLI option set x generated input files; non-trivial = distinct cases with at least one option "
            "off the base point whose API gamma differs from the base point's, or whose output mode is not stdout; "
            "outcomes = distinct reported (gamma, gamma-cat, gamma-k) tuples",
    "assumptions": ["CLI called in-process through pygamma_agreement.cli_apps.pygamma_cmd with sys.argv set",
                    "thread pool replaced by a serial executor in both the CLI run and the API run",
                    "numbers compared as floats within 1e-6 relative"],
    "explanation": "deviation-bounded enumeration of the option lattice; each configuration = one CLI run + one "
                   "API run + spy comparison",
}

OPTIONS = {  # name: [base, alternatives...]
    "a": [1.0, 3.0, 0.0], "b": [1.0, 2.0, 0.0], "e": [1.0, 0.5], "p": [0.3, 0.15], "n": [3, 5],
    "d": ["absolute", "numerical", "levenshtein"], "m": [False, True], "c": [False, True], "k": [False, True],
    "seed": [7, 0], "s": [",", ";"], "out": ["stdout", "csv", "json"], "fmt": ["csv", "rttm"], "files": [1, 2, "2r", 3, "dir", "2dirs", "dir+file", "missing_first", "missing_mid"],
}
ROWS = {
    "f1": [("a", "1", 0, 3), ("a", "2", 5, 8), ("a", "10", 10, 12), ("b", "1", 0.5, 3), ("b", "10", 5, 8.5),
           ("c", "2", 0, 2.5), ("c", "2", 5.5, 8), ("c", "10", 10, 12.5)],
    # f2: categories a strict subset of f1's with a smaller numeric range; f3: a superset with a wider one
    # (state carried from one input file to the next inside one invocation would show)
    "f2": [("u", "2", 0, 2), ("u", "1", 4, 6), ("v", "2", 0.25, 2), ("v", "1", 4, 7), ("v", "2", 9, 10)],
    "f3": [("p", "30", 0, 2), ("p", "1", 4, 6), ("q", "10", 0.25, 2), ("q", "2", 4, 7), ("q", "30", 8, 9)],
}
FILESETS = {1: ["f1"], 2: ["f1", "f2"], "2r": ["f2", "f1"], 3: ["f3", "f1", "f2"],
            "dir": [["f1", "f2"]], "2dirs": [["f1"], ["f3", "f2"]], "dir+file": [["f2"], "f1"],
            # an argument naming no existing file is reported and skipped: the other files keep their own results
            "missing_first": ["MISSING", "f2", "f1"], "missing_mid": ["f3", "MISSING", "f1"]}  # lists = folders


def base_point():
    return {k: v[0] for k, v in OPTIONS.items()}


def lattice(max_dev):
    keys = list(OPTIONS)
    out = [base_point()]
    for r in range(1, max_dev + 1):
        for ks in itertools.combinations(keys, r):
            for alts in itertools.product(*[OPTIONS[k][1:] for k in ks]):
                cfg = base_point()
                cfg.update(dict(zip(ks, alts)))
                out.append(cfg)
    return out


def configs(tier):
    out = lattice(2 if tier == "quick" else 3)
    for d, o, c, k, m in itertools.product(OPTIONS["d"], OPTIONS["out"], (False, True), (False, True), (False, True)):
        cfg = base_point()
        cfg.update({"d": d, "out": o, "c": c, "k": k, "m": m})
        if cfg not in out:
            out.append(cfg)
    # weights at 0 x categorical dissimilarity x gamma-cat / gamma-k (an option cancelled in gamma still acts elsewhere)
    for a, b in ((1.0, 0.0), (0.0, 1.0), (3.0, 0.0)):
        for d in OPTIONS["d"]:
            for c, k in ((True, False), (False, True), (True, True)):
                cfg = base_point()
                cfg.update({"a": a, "b": b, "d": d, "c": c, "k": k})
                if cfg not in out:
                    out.append(cfg)
    # four runs at the parser's own defaults for -p / -n / --seed
    for d in ("absolute", "numerical"):
        for m in (False, True):
            cfg = base_point()
            cfg.update({"d": d, "m": m, "defaults": True})
            out.append(cfg)
    return out


def parse_dict(text):
    """the gamma-k column of the CSV output is the text of a dict of floats; non-finite floats print as nan / inf / -inf
    (a category whose chance categorical disorder is 0), which are not Python literals"""
    return eval(compile(ast.parse(text, mode="eval"), "<gamma-k>", "eval"),  # noqa - own output, names restricted below
                {"__builtins__": {}, "nan": float("nan"), "inf": float("inf")})


def write_one(d, name, cfg):
    if cfg["fmt"] == "csv":
        p = os.path.join(d, name + ".csv")
        with open(p, "w", newline="") as f:
            csv.writer(f, delimiter=cfg["s"]).writerows(ROWS[name])
    else:
        p = os.path.join(d, name + ".rttm")
        with open(p, "w") as f:
            for ann, lab, s, e in ROWS[name]:
                f.write(f"SPEAKER {ann} 1 {s} {e - s} <NA> <NA> {lab} <NA> <NA>\n")
    return p


def write_inputs(d, cfg):
    """returns (command-line arguments, list of the input files they denote)"""
    args, files = [], []
    for k, item in enumerate(FILESETS[cfg["files"]]):
        if isinstance(item, list):  # a folder argument
            sub = os.path.join(d, f"dir{k}")
            os.makedirs(sub)
            for name in item:
                files.append(write_one(sub, name, cfg))
            args.append(sub)
        elif item == "MISSING":
            args.append(os.path.join(d, "no_such_file.csv"))
        else:
            p = write_one(d, item, cfg)
            args.append(p)
            files.append(p)
    return args, files


def argv_for(cfg, paths, outpath):
    a = ["pygamma-agreement"] + paths
    if not cfg.get("defaults"):
        a += ["-p", str(cfg["p"]), "-n", str(cfg["n"]), "--seed", str(cfg["seed"])]
    else:
        a += ["--seed", str(cfg["seed"])]
    a += ["-a", str(cfg["a"]), "-b", str(cfg["b"]), "-e", str(cfg["e"]), "-d", cfg["d"], "-s", cfg["s"], "-f", cfg["fmt"]]
    if cfg["m"]:
        a.append("-m")
    if cfg["c"]:
        a.append("-c")
    if cfg["k"]:
        a.append("-k")
    if cfg["out"] == "csv":
        a += ["-o", outpath]
    elif cfg["out"] == "json":
        a += ["-j", outpath]
    return a


def run_cli(pa, cfg, paths, outpath):
    """returns (per-file results {path: {gamma, gamma-cat?, gamma-k?}}, spy records, error)"""
    import pygamma_agreement.cli_apps as cli
    spy = []
    orig = pa.Continuum.compute_gamma
    sig = inspect.signature(orig)

    def compute_gamma(self, *a, **k):
        b = sig.bind(self, *a, **k)
        b.apply_defaults()
        spy.append(dict(b.arguments))
        return orig(self, *a, **k)
    pa.Continuum.compute_gamma = compute_gamma
    old_argv = sys.argv
    sys.argv = argv_for(cfg, paths, outpath)
    buf = io.StringIO()
    err = None
    try:
        with serial_pool(), contextlib.redirect_stdout(buf):
            cli.pygamma_cmd()
    except SystemExit as e:
        err = f"SystemExit({e.code})"
    except Exception as e:  # noqa
        err = f"{type(e).__name__}: {e}"
    finally:
        sys.argv = old_argv
        pa.Continuum.compute_gamma = orig
    if err:
        return None, spy, err
    results = {}
    try:
        if cfg["out"] == "stdout":
            cur = None
            for line in buf.getvalue().splitlines():
                if line.startswith("gamma="):
                    results[cur]["gamma"] = float(line.split("=", 1)[1])
                elif line.startswith("gamma-cat="):
                    results[cur]["gamma-cat"] = float(line.split("=", 1)[1])
                elif line.startswith("gamma-k("):
                    cat = line[len("gamma-k('"):line.index("')=")]
                    results[cur].setdefault("gamma-k", {})[cat] = float(line.split("=", 1)[1])
                elif line.strip() and not line.startswith("Discarded"):
                    cur = line.strip()
                    results[cur] = {}
        elif cfg["out"] == "csv":
            with open(outpath, newline="") as f:
                rows = list(csv.reader(f, delimiter=cfg["s"]))
            header = rows[0]
            for row in rows[1:]:
                r = {}
                for lab, val in zip(header[1:], row[1:]):
                    r[lab] = {kk: float(vv) for kk, vv in parse_dict(val).items()} if lab == "gamma-k" else float(val)
                results[row[0]] = r
        else:
            data = json.load(open(outpath))
            for p, r in data.items():
                results[p] = {lab: ({kk: float(vv) for kk, vv in val.items()} if lab == "gamma-k" else float(val))
                              for lab, val in r.items()}
    except Exception as e:  # noqa
        return None, spy, f"output of mode {cfg['out']} cannot be read back as numbers: {type(e).__name__}: {e}"
    return results, spy, None


def run_api(pa, cfg, paths):
    np.random.seed(cfg["seed"])
    out = {}
    for p in paths:
        c = pa.Continuum.from_csv(p, delimiter=cfg["s"]) if cfg["fmt"] == "csv" else pa.Continuum.from_rttm(p)
        cat = None
        if cfg["d"] == "levenshtein":
            cat = pa.LevenshteinCategoricalDissimilarity(list(c.categories), delta_empty=cfg["e"])
        elif cfg["d"] == "numerical":
            cat = pa.NumericalCategoricalDissimilarity(list(c.categories), delta_empty=cfg["e"])
        # the API user states delta_empty on every object they build (a copy of the category list, not the live set):
        # the reference does not depend on the combined dissimilarity re-synchronising its component
        d = pa.CombinedCategoricalDissimilarity(alpha=cfg["a"], beta=cfg["b"], delta_empty=cfg["e"], cat_dissim=cat)
        sampler = pa.ShuffleContinuumSampler() if cfg["m"] else None
        kw = {"precision_level": 0.05, "n_samples": 30} if cfg.get("defaults") else \
            {"precision_level": cfg["p"], "n_samples": cfg["n"]}
        with serial_pool():
            g = c.compute_gamma(dissimilarity=d, fast=True, sampler=sampler, **kw)
            r = {"gamma": float(g.gamma)}
            if cfg["c"]:
                r["gamma-cat"] = float(g.gamma_cat)
            if cfg["k"]:
                r["gamma-k"] = {cat_: float(g.gamma_k(cat_)) for cat_ in c.categories}
        out[str(p)] = r
    return out


CAT_CLASS = {"absolute": "AbsoluteCategoricalDissimilarity", "numerical": "NumericalCategoricalDissimilarity",
             "levenshtein": "LevenshteinCategoricalDissimilarity"}


def judge(pa, cfg, cli_res, spy, err, api_res, paths):
    if err:
        return [f"CLI failed: {err}"]
    probs = []
    if len(spy) != len(paths):
        probs.append(f"CLI computed gamma {len(spy)} times for {len(paths)} input files")
        return probs
    for s in spy:
        d = s["dissimilarity"]
        want_p, want_n = (0.05, 30) if cfg.get("defaults") else (cfg["p"], cfg["n"])
        eff = {"alpha": getattr(d, "alpha", None), "beta": getattr(d, "beta", None),
               "delta_empty": float(getattr(d, "delta_empty", float("nan"))),
               "cat": type(getattr(d, "categorical_dissim", None)).__name__,
               "sampler": type(s["sampler"]).__name__, "precision": s["precision_level"], "n": s["n_samples"]}
        want = {"alpha": cfg["a"], "beta": cfg["b"], "delta_empty": float(np.float32(cfg["e"])), "cat": CAT_CLASS[cfg["d"]],
                "sampler": "ShuffleContinuumSampler" if cfg["m"] else "NoneType", "precision": want_p, "n": want_n}
        if not cfg["m"] and eff["sampler"] == "StatisticalContinuumSampler":
            eff["sampler"] = "NoneType"
        for k in want:
            if eff[k] != want[k] and not (isinstance(want[k], float) and close(eff[k], want[k], 1e-6)):
                probs.append(f"option not in effect: {k} is {eff[k]!r} in the gamma computation, requested {want[k]!r}")
    if probs:
        return probs
    if sorted(cli_res) != sorted(api_res):
        return [f"CLI reports files {sorted(cli_res)} but inputs are {sorted(api_res)}"]
    for p in api_res:
        a, c = api_res[p], cli_res[p]
        if sorted(a) != sorted(c):
            probs.append(f"CLI reports {sorted(c)} for {os.path.basename(p)}, requested {sorted(a)}")
            continue
        for k in a:
            if k == "gamma-k":
                if sorted(a[k]) != sorted(c[k]) or any(not close(a[k][x], c[k][x], 1e-6) for x in a[k]):
                    probs.append(f"gamma-k of {os.path.basename(p)}: CLI {c[k]} but API {a[k]}")
            elif not close(a[k], c[k], 1e-6):
                probs.append(f"{k} of {os.path.basename(p)}: CLI {c[k]} but API {a[k]} ({cfg['out']} output)")
    return probs


def run_config(pa, cfg):
    d = tempfile.mkdtemp(prefix="c20_", dir=os.environ.get("TMPDIR", "/tmp"))
    try:
        args, paths = write_inputs(d, cfg)
        outpath = os.path.join(d, "out." + ("json" if cfg["out"] == "json" else "csv"))
        cli_res, spy, err = run_cli(pa, cfg, args, outpath)
        # the API is driven with the files in the order the CLI reports them (a folder is listed in OS order)
        order_problem = None
        if cli_res is not None and sorted(cli_res) == sorted(str(p) for p in paths):
            reported = [p for key in cli_res for p in paths if str(p) == key]
            # expected order: arguments in the order given; inside a folder, whatever order the CLI listed
            expected = []
            for a in args:
                if os.path.isdir(a):
                    expected += [p for p in reported if os.path.dirname(p) == a]
                elif os.path.exists(a):
                    expected.append(a)
            if [str(p) for p in reported] != [str(p) for p in expected]:
                order_problem = (f"input files processed in the order {[os.path.basename(p) for p in reported]}, given as "
                                 f"{[os.path.basename(p) for p in expected]} (with one seed, each file's samples depend on its position)")
            paths = reported
        try:
            api_res = run_api(pa, cfg, paths)
        except Exception as e:  # noqa
            return [f"HARNESS-SKIP API raised {type(e).__name__}: {e}"], None
        probs = judge(pa, cfg, cli_res, spy, err, api_res, paths)
        if order_problem and not probs:
            probs = [order_problem]
        first = api_res[str(paths[0])]
        return probs, first
    finally:
        shutil.rmtree(d, ignore_errors=True)


def shards(tier, seed):
    cfgs = configs(tier)
    per = max(1, len(cfgs) // 48)
    return [{"cfgs": cfgs[i:i + per]} for i in range(0, len(cfgs), per)]


_base_gamma = {}


def run(task):
    from ..load import load
    pa = load()
    res = {"evaluations": 0, "transitions": 0, "traces": 0, "state_set": [], "nontrivial": [], "outcomes": [],
           "samples": [], "violations": [], "unspecified": 0, "extra": {"api_raised": 0}}
    if "base" not in _base_gamma:
        _, first = run_config(pa, base_point())
        _base_gamma["base"] = first["gamma"] if first else None
    for cfg in task["cfgs"]:
        probs, first = run_config(pa, cfg)
        res["evaluations"] += 1
        res["transitions"] += 2
        res["traces"] += 1
        key = h(cfg)
        res["state_set"].append(key)
        if probs and probs[0].startswith("HARNESS-SKIP"):
            res["extra"]["api_raised"] += 1
            continue
        if first is not None:
            res["outcomes"].append(h(first))
        if probs:
            res["violations"].append({"msg": probs[0], "case": {"cfg": cfg}, "sig": h([probs[0][:60], cfg["d"], cfg["out"]])})
            continue
        devs = [k for k in OPTIONS if cfg[k] != OPTIONS[k][0]]
        if devs and (cfg["out"] != "stdout" or (first and first["gamma"] != _base_gamma["base"])):
            res["nontrivial"].append(key)
            if len(res["samples"]) < 2 and len(devs) >= 2:
                res["samples"].append({"options": cfg, "api_result_first_file": first})
    # -d: three choices, three categorical classes, and different gammas where the labels make them differ
    return res


def replay(case):
    from ..load import load
    pa = load()
    probs, _ = run_config(pa, case["cfg"])
    probs = [p for p in probs if not p.startswith("HARNESS-SKIP")]
    return [{"msg": probs[0], "case": case}] if probs else []
