"""C10 - fast alignment terminates with a valid, never-better-than-optimal alignment.

E3 + lasso detection.  Termination is decided, not timed: a wrapper around
Continuum.get_first_window records, for the working copy, the number of remaining units at each
call; the loop body is a deterministic function of the working copy, so a second call with an
unchanged unit count is a revisited state - a proven cycle - and the monitor raises at that moment.
"""
import math

import numpy as np

from . import _align as A
from ..oracles import optimum, close, check_partition, pair_fn, unitary_disorder
from ..runner import h
from ..serial import serial_pool
from ..spec import build_continuum, spec_by_annotator
from ..universe import iter_G, unit_options, fam_staircase, fam_interleaved, fam_nested

ID = "C10"
TASK_TIMEOUT = 1500.0
HANG_IS_VIOLATION = True
CRASH_IS_VIOLATION = True
META = {
    "rule": "case = (continuum, window size, dissimilarity); non-trivial = distinct cases where the window does "
            "not cover the whole continuum and the loop needed >= 2 iterations; outcomes = distinct (fast disorder, "
            "optimum) pairs",
    "assumptions": ["the fast-alignment loop body is a deterministic function of its working copy, so an unchanged "
                    "unit count between two get_first_window calls on the same object proves a cycle",
                    "DP optimum oracle for <= 14 units; 1e-4 relative tolerance"],
    "explanation": "explicit enumeration of a bounded universe x window sizes with a lasso monitor on the real loop",
}


class Lasso(Exception):
    pass


_mon = {"installed": False, "seen": {}, "iters": 0}


def install_monitor():
    from ..load import load
    pa = load()
    if _mon["installed"]:
        return
    orig = pa.Continuum.get_first_window

    def get_first_window(self, dissimilarity, w=1):
        n = self.num_units
        key = id(self)
        if _mon["seen"].get(key) == n:
            raise Lasso(f"get_first_window called twice on the working copy with {n} units left: the loop made "
                        f"no progress (cycle)")
        _mon["seen"][key] = n
        _mon["iters"] += 1
        return orig(self, dissimilarity, w)

    pa.Continuum.get_first_window = get_first_window
    _mon["installed"] = True


def reset_monitor():
    _mon["seen"].clear()
    _mon["iters"] = 0


def fast_case(spec, recipe, w, warm=None, backend="cbc"):
    install_monitor()
    reset_monitor()
    obs = A.eval_case(spec, recipe, backend if A.cbc_available() else "glpk_noimport", "fast", w, warm=warm)
    obs["iters"] = _mon["iters"]
    return obs


def judge(spec, recipe, w, obs, opt):
    byann = spec_by_annotator(spec)
    n = len(byann)
    m = sum(len(us) for _, us in byann)
    if not obs["ok"]:
        if "Lasso" in obs["exc"] or obs.get("timeout"):
            return f"fast alignment (window {w}) does not terminate: {obs['exc']}"
        return f"fast alignment (window {w}) raised {obs['exc']}"
    probs = check_partition(obs["nts"], byann)
    if probs:
        return f"fast alignment (window {w}) is not a partition: " + "; ".join(probs[:2])
    d, de = pair_fn(recipe)
    uds = [unitary_disorder([u for _, u in sorted(nt, key=lambda t: t[0])], d, de) for nt in obs["nts"]]
    tot = sum(uds) / (m / n)
    if not close(obs["disorder"], tot):
        return f"fast alignment (window {w}) reports disorder {obs['disorder']} but its units give {tot}"
    if opt is not None:
        if obs["disorder"] < opt - 1e-4 * max(1.0, opt):
            return f"fast alignment (window {w}) has disorder {obs['disorder']} below the optimum {opt}"
        if w * n >= m and not close(obs["disorder"], opt):
            return f"window {w} covers the whole continuum ({m} units, {n} annotators) but disorder " \
                   f"{obs['disorder']} != optimum {opt}"
    return None


def universes(tier):
    if tier == "quick":
        return [dict(n=2, k=2, T=4, labels=["x"], ks=[2, 3]), dict(n=2, k=2, T=3, labels=[None]),
                dict(n=3, k=2, T=2, labels=["x"], sym=True), dict(n=2, k=1, T=3, labels=["x", "y"], ks=[0, 2])]
    return [dict(n=2, k=3, T=4, labels=["x"], ks=[3, 3]), dict(n=2, k=2, T=4, labels=[None]),
            dict(n=3, k=2, T=3, labels=["x"], sym=True), dict(n=3, k=2, T=2, labels=["x", "y"], sym=True),
            dict(n=2, k=2, T=3, labels=["x", "y"])]


def recipes(u, idx, tier):
    D = [{"k": "pos", "de": 1.0}]
    if tier == "thorough" or idx % 4 == 0:
        D.append({"k": "comb", "a": 1.0, "b": 1.0, "de": 1.0})
    if tier == "thorough" and idx % 3 == 0:
        D.append({"k": "comb", "a": 3.0, "b": 2.0, "de": 0.5})
    return D


def shards(tier, seed):
    tasks = []
    for u in universes(tier):
        ks = u.get("ks") or [u["k"]] * u["n"]
        sz = 1
        for kk in ks:
            sz *= len(unit_options(kk, u["T"], u["labels"]))
        ns = max(1, min(64, sz // 100))
        for s in range(ns):
            tasks.append({"universe": u, "shard": s, "nshards": ns, "tier": tier})
    # (5,8) (4,12) (3,30): sizes for which measure_best_window_size picks a finite window (the others stay exact)
    fam = [(2, 8), (2, 30), (5, 8), (4, 12)] if tier == "quick" else \
        [(2, 8), (2, 12), (2, 20), (2, 30), (2, 45), (2, 60), (3, 15), (5, 8), (4, 12), (3, 30), (5, 10)]
    for n, q in fam:
        tasks.append({"gamma_family": [n, q], "tier": tier})
    tasks.append({"known_shapes": True, "tier": tier})
    # many annotators, unit totals that are not multiples of the annotator count (7 x ~4, 11 x ~2, 6 x ~5 units)
    many = [(7, 28), (7, 29), (7, 30), (11, 24), (11, 25), (6, 31), (9, 28)]
    if tier == "thorough":
        many += [(7, 58), (11, 50), (8, 33), (10, 31), (12, 25), (13, 27)]
    for p_, n_ in many:
        tasks.append({"many": [p_, n_], "tier": tier})
    return tasks


def many_spec(p_, n_):
    """p annotators, n units in total dealt round-robin on a regular grid (annotator i slightly shifted)"""
    anns = [[f"a{i:02d}", []] for i in range(p_)]
    for k in range(n_):
        i = k % p_
        j = k // p_
        anns[i][1].append([j * 4 + i * 0.125, j * 4 + 2 + i * 0.125, "x"])
    return {"annotators": anns}


KNOWN_SHAPES = [
    # stalling shapes found by hand: every windowed unitary alignment reaches past the limit
    ({"annotators": [["a", [[1, 2, "x"], [3, 4, "x"]]], ["b", [[0, 100, "x"], [1, 5, "x"], [3, 6, "x"]]]]}, 1),
    ({"annotators": [["a", [[1, 2, "x"], [2, 3, "x"]]], ["b", [[0, 4, "x"], [1, 4, "x"], [2, 4, "x"]]]]}, 1),
    ({"annotators": [["a", [[1, 2, None], [2, 3, None]]], ["b", [[0, 4, None], [1, 4, None], [2, 4, None]]]]}, 1),
]


def run(task):
    from ..load import load
    pa = load()
    res = {"evaluations": 0, "transitions": 0, "traces": 0, "state_set": [], "nontrivial": [], "outcomes": [],
           "samples": [], "violations": [], "unspecified": 0, "extra": {"max_loop_iterations": 0}}
    tier = task["tier"]
    if "gamma_family" in task:
        return run_gamma_family(pa, res, *task["gamma_family"])
    if "many" in task:
        p_, n_ = task["many"]
        wmax = 6 if p_ <= 7 else (2 if p_ <= 9 else (1 if tier == "quick" else 3))
        specs = [(many_spec(p_, n_), list(range(1, wmax + 1)))]
    elif task.get("known_shapes"):
        specs = [(s, [w, w + 1]) for s, w in KNOWN_SHAPES]
    else:
        u = task["universe"]
        specs = []
        for idx, spec in iter_G(u["n"], u["k"], u["T"], u["labels"], shard=task["shard"], nshards=task["nshards"],
                                sym=u.get("sym", False), ks=u.get("ks")):
            if sum(1 for _, us in spec["annotators"] if True) < 2:
                continue
            specs.append((spec, None))
    maxit = 0
    for i, (spec, ws) in enumerate(specs):
        n = len(spec["annotators"])
        m = sum(len(us) for _, us in spec["annotators"])
        if ws is None:
            ws = list(range(1, math.ceil(m / n) + 2))
        for recipe in recipes(None, i, tier):
            opt = optimum(spec, recipe) if m <= 14 else None
            for w in ws:
                obs = fast_case(spec, recipe, w)
                res["evaluations"] += 1
                res["transitions"] += max(1, obs["iters"])
                res["traces"] += 1
                key = h([spec, recipe, w])
                res["state_set"].append(key)
                maxit = max(maxit, obs["iters"])
                msg = judge(spec, recipe, w, obs, opt)
                if msg:
                    res["violations"].append({"msg": msg, "case": {"spec": spec, "recipe": recipe, "w": w},
                                              "sig": h([msg.split(':')[0][:40], m, n, w, i // 20])})
                    continue
                k = len(res["state_set"])
                if k % 4 == 1:
                    # every window's alignment goes through the MIP: the fall-back back-end must give a partition too
                    be = "glpk_noimport" if k % 8 == 1 else "glpk_error"
                    obs3 = fast_case(spec, recipe, w, backend=be)
                    res["evaluations"] += 1
                    res["transitions"] += max(1, obs3["iters"])
                    res["traces"] += 1
                    msg3 = judge(spec, recipe, w, obs3, opt)
                    if msg3:
                        res["violations"].append({"msg": msg3 + f" [solver configuration {be}]",
                                                  "case": {"spec": spec, "recipe": recipe, "w": w, "backend": be},
                                                  "sig": h(["glpk", msg3.split(':')[0][:40], m, n, w, i // 20])})
                        continue
                if k % 5 == 0:
                    # non-initial state: neighbouring continuum aligned before, turned into this one by a mutator
                    warm = {"recipe": recipe if (k // 20) % 2 == 0 else {"k": "pos", "de": 0.35},
                            "how": A.WARM_KINDS[(k // 5) % len(A.WARM_KINDS)]}
                    obs2 = fast_case(spec, recipe, w, warm=warm)
                    res["evaluations"] += 1
                    res["transitions"] += max(1, obs2["iters"])
                    res["traces"] += 1
                    msg2 = judge(spec, recipe, w, obs2, opt)
                    if msg2 is None and obs2["ok"] and not close(obs2["disorder"], obs["disorder"]):
                        msg2 = f"fast alignment (window {w}) gives {obs2['disorder']} on the same continuum reached by " \
                               f"{warm['how']}() after an earlier alignment, {obs['disorder']} on a fresh one"
                    if msg2:
                        res["violations"].append({"msg": msg2 + f" [history: {warm['how']}]",
                                                  "case": {"spec": spec, "recipe": recipe, "w": w, "warm": warm},
                                                  "sig": h(["warm", msg2.split(':')[0][:40], m, n, w, i // 20])})
                        continue
                res["outcomes"].append(h([round(obs["disorder"], 5), None if opt is None else round(opt, 5)]))
                if w * n < m and obs["iters"] >= 2:
                    res["nontrivial"].append(key)
                    if len(res["samples"]) < 2 and opt is not None and obs["disorder"] > opt * 1.001:
                        res["samples"].append({"continuum": spec, "window": w, "dissimilarity": recipe,
                                               "fast_disorder": obs["disorder"], "optimum": opt,
                                               "loop_iterations": obs["iters"]})
    res["extra"] = {"loop_iteration_records": maxit}
    return res


def finalize(cov):
    if cov.get("finite_window_families", 0) < 1:
        return ["no family got a finite window: the fast path of compute_gamma was not exercised"]
    return []


def run_gamma_family(pa, res, n, q):
    """compute_gamma(fast=True): jobs use the exact algorithm when the window stays at infinity (and then the
    result equals exact gamma for the same seed), the fast one when a finite window is chosen."""
    install_monitor()
    calls = {"best": 0, "fast": 0}
    ob, of = pa.Continuum.get_best_alignment, pa.Continuum.get_fast_alignment
    top = {"depth": 0}

    def gb(self, d):
        if top["depth"] == 0:
            calls["best"] += 1
        top["depth"] += 1
        try:
            return ob(self, d)
        finally:
            top["depth"] -= 1

    def gf(self, d, w):
        calls["fast"] += 1
        top["depth"] += 1
        try:
            return of(self, d, w)
        finally:
            top["depth"] -= 1
    pa.Continuum.get_best_alignment, pa.Continuum.get_fast_alignment = gb, gf
    try:
        for fam in (fam_staircase, fam_interleaved, fam_nested):
            spec = fam(n, q)
            recipe = {"k": "comb", "a": 1.0, "b": 1.0, "de": 1.0}
            d = A.DISSIMS.get(recipe)
            c = build_continuum(spec)
            calls["best"] = calls["fast"] = 0
            reset_monitor()
            np.random.seed(4)
            res["evaluations"] += 1
            res["traces"] += 1
            key = h(["gamma_family", fam.__name__, n, q])
            res["state_set"].append(key)
            case = {"gamma_family": [fam.__name__, n, q]}
            try:
                with serial_pool():
                    r = c.compute_gamma(d, n_samples=2, fast=True)
            except Exception as e:  # noqa
                res["violations"].append({"msg": f"compute_gamma(fast=True) on {fam.__name__}({n},{q}) raised "
                                                 f"{type(e).__name__}: {e}", "case": case})
                continue
            res["transitions"] += 3
            window = c.best_window_size
            # measure_best_window_size itself calls get_best_alignment once on the smallest window
            jobs_best = calls["best"] - 1
            if window == np.inf:
                if calls["fast"] != 0 or jobs_best != 3:
                    res["violations"].append({"msg": f"window left at infinity but jobs called fast {calls['fast']}x / "
                                                     f"exact {jobs_best}x (3 jobs)", "case": case})
                np.random.seed(4)
                with serial_pool():
                    r2 = build_continuum(spec).compute_gamma(d, n_samples=2)
                if float(r.gamma) != float(r2.gamma):
                    res["violations"].append({"msg": f"fast-mode gamma {r.gamma} != exact gamma {r2.gamma} although the "
                                                     f"exact algorithm was selected", "case": case})
            else:
                if calls["fast"] != 3 or jobs_best != 0:
                    res["violations"].append({"msg": f"finite window {window} chosen but jobs called fast "
                                                     f"{calls['fast']}x / exact {jobs_best}x", "case": case})
                nts, dis, _ = A.observe_alignment(r.best_alignment)
                probs = check_partition(nts, spec_by_annotator(spec))
                if probs:
                    res["violations"].append({"msg": "fast-mode best alignment is not a partition: " + probs[0],
                                              "case": case})
                res["nontrivial"].append(key)
                res["extra"]["finite_window_families"] = res["extra"].get("finite_window_families", 0) + 1
            res["outcomes"].append(h([fam.__name__, n, q, str(window)]))
    finally:
        pa.Continuum.get_best_alignment, pa.Continuum.get_fast_alignment = ob, of
    return res


def replay(case):
    from ..load import load
    pa = load()
    if "gamma_family" in case:
        res = {"evaluations": 0, "transitions": 0, "traces": 0, "state_set": [], "nontrivial": [], "outcomes": [],
               "samples": [], "violations": [], "unspecified": 0, "extra": {}}
        fam, n, q = case["gamma_family"]
        out = run_gamma_family(pa, res, n, q)["violations"]
        return [v for v in out if v["case"]["gamma_family"][0] == fam][:1]
    spec, recipe, w = case["spec"], case["recipe"], case["w"]
    m = sum(len(us) for _, us in spec["annotators"])
    opt = optimum(spec, recipe) if m <= 14 else None
    msg = judge(spec, recipe, w, fast_case(spec, recipe, w, warm=case.get("warm"), backend=case.get("backend", "cbc")), opt)
    return [{"msg": msg, "case": case}] if msg else []
