"""C02 - the best alignment has minimal disorder among all partitions.

Every continuum of the bounded universes x dissimilarity menu x both MIP back-ends; oracle:
exact DP minimum over ALL partitions built from the UNPRUNED set of unitary alignments.
"""
from . import _align as A
from ..oracles import optimum, close
from ..runner import h
from ..spec import spec_by_annotator

ID = "C02"
HANG_IS_VIOLATION = False
META = {
    "rule": "case = (continuum of G(n,k,T,L) or structured family, dissimilarity recipe, MIP back-end); "
            "non-trivial = distinct (continuum, recipe) whose exact optimum is strictly below the all-singletons "
            "alignment n*delta_empty (some grouping is beneficial); outcomes = distinct optimum values",
    "assumptions": ["times on integer / dyadic grids (exact in float32); agreement within 1e-4 relative",
                    "oracle: DP over all partitions from the unpruned tuple set, float64, <= 14 units",
                    "GLPK back-end forced by masking cylp in sys.modules"],
    "explanation": "explicit enumeration of a bounded input space; each state is an input configuration, each "
                   "transition one library call compared with the exact oracle",
}
KIND = "best"
COVER = False


def backends():
    return ["cbc", "glpk_noimport"] if A.cbc_available() else ["glpk_noimport"]


DE_SWEEP = [0.1, 0.2, 0.3, 0.4, 0.6, 0.8, 0.9, 1.1, 1.3, 1.9]  # rounding-sensitive values differ with the number of pairs


def shards(tier, seed):
    tasks = A.make_shards(tier, "opt", extra={"full": tier == "thorough", "dup_every": 7})
    FAR = [[0, 1], [5, 6], [0, 6], [2, 3]]  # units far apart: the optimum leaves some of them alone
    sweep = [dict(n=4, k=1, T=2, labels=["x"], sym=True), dict(n=5, k=1, T=2, labels=["x"], sym=True),
             dict(n=3, k=2, T=2, labels=["x"], sym=True),
             dict(n=4, k=1, T=6, labels=["x"], segs=FAR, sym=True), dict(n=5, k=1, T=6, labels=["x"], segs=FAR, sym=True)]
    if tier == "thorough":
        sweep += [dict(n=4, k=1, T=2, labels=["x", "y"]), dict(n=6, k=1, T=1, labels=["x", "y"], sym=True)]
    # two annotators at sizes far beyond the subset DP (up to 2 x 170 units, > 20 000 candidates: every buffer growth),
    # decided by an assignment-problem oracle
    big = [[100, 100], [150, 150], [120, 170]] if tier == "quick" else [[100, 100], [150, 150], [120, 170], [200, 200], [99, 230]]
    for sizes in big:
        tasks.append({"assignment": {"block": sizes}})
    for fam in ("fam_staircase", "fam_interleaved", "fam_identical"):
        tasks.append({"assignment": {"family": [fam, 2, 60]}})
    for u in sweep:
        for i in range(0, len(DE_SWEEP), 2):
            tasks.append({"universe": u, "shard": 0, "nshards": 1, "sweep": DE_SWEEP[i:i + 2]})
    return tasks


def judge(spec, recipe, backend, obs, opt):
    """problems of one observed run w.r.t. this property"""
    if not obs["ok"]:
        return None
    if not close(obs["disorder"], opt):
        return f"{KIND} alignment disorder {obs['disorder']!r} but exact minimum over all " \
               f"{'covers' if COVER else 'partitions'} is {opt!r} (backend {backend})"
    return None


def run(task):
    res = {"evaluations": 0, "transitions": 0, "traces": 0, "state_set": [], "nontrivial": [], "outcomes": [],
           "samples": [], "violations": [], "extra": {"library_exceptions": 0}}
    full = task.get("full", False)
    if "assignment" in task:
        return run_assignment(task["assignment"], res)
    for spec in A.iter_task_specs(task):
        labels = A.spec_label_set(spec)
        n = len(spec["annotators"])
        recipes = A.menu(labels, full)
        if task.get("sweep"):
            recipes = [{"k": "pos", "de": x} for x in task["sweep"]] + \
                      [{"k": "comb", "a": 1.0, "b": 1.0, "de": x} for x in task["sweep"][:1]]
        for recipe in recipes:
            opt = optimum(spec, recipe, cover=COVER)
            key = h([spec, recipe])
            res["state_set"].append(key)
            de = recipe.get("de", 1.0)
            if opt < n * de * (1 - 1e-6):
                res["nontrivial"].append(key)
            res["outcomes"].append(round(opt, 5))
            for backend in backends():
                obs = A.eval_case(spec, recipe, backend, KIND)
                res["evaluations"] += 1
                res["transitions"] += 1
                if not obs["ok"]:
                    res["extra"]["library_exceptions"] += 1
                    continue
                res["traces"] += 1
                msg = judge(spec, recipe, backend, obs, opt)
                if msg:
                    res["violations"].append({"msg": msg, "case": A.case_dict(spec, recipe, backend, KIND)})
            # non-initial states: a neighbouring continuum was aligned before (another dissimilarity), then turned
            # into this one by add / remove / add_annotator / in-place merge (rotating)
            k = len(res["state_set"])
            if k % 4 == 0:
                wrec = {"k": "pos", "de": 0.35} if recipe["k"] != "pos" else {"k": "comb", "a": 1.0, "b": 1.0, "de": 1.0}
                if (k // 16) % 2 == 0:
                    wrec = recipe  # the earlier alignment used the very same dissimilarity object
                warm = {"recipe": wrec, "how": A.WARM_KINDS[(k // 4) % len(A.WARM_KINDS)]}
                be = "cbc" if A.cbc_available() else "glpk_noimport"
                obs = A.eval_case(spec, recipe, be, KIND, warm=warm)
                res["evaluations"] += 1
                res["transitions"] += 2
                if obs["ok"]:
                    res["traces"] += 1
                    msg = judge(spec, recipe, be, obs, opt)
                    if msg:
                        res["violations"].append({"msg": msg + f" [continuum reached by {warm['how']}() after an earlier alignment]",
                                                  "case": dict(A.case_dict(spec, recipe, be, KIND), warm=warm)})
            if len(res["samples"]) < 2 and opt < n * de * 0.9:
                res["samples"].append({"continuum": spec, "dissimilarity": recipe, "exact_optimum": opt})
    return res


def assignment_spec(a):
    from .. import universe
    if "block" in a:
        return universe.fam_block(a["block"], spread=3.0)  # all mutually close, but with distinct pair costs
    f, n, q = a["family"]
    return getattr(universe, f)(n, q)


def run_assignment(a, res):
    from ..oracles import optimum_two_annotators
    spec = assignment_spec(a)
    for recipe in ({"k": "pos", "de": 1.0}, {"k": "comb", "a": 1.0, "b": 1.0, "de": 0.7}):
        opt = optimum_two_annotators(spec, recipe)
        bes = backends() if "family" in a else backends()[:1]
        for backend in bes:
            obs = A.eval_case(spec, recipe, backend, KIND)
            res["evaluations"] += 1
            res["transitions"] += 1
            key = h(["assignment", a, recipe, backend])
            res["state_set"].append(key)
            if not obs["ok"]:
                res["extra"]["library_exceptions"] += 1
                continue
            res["traces"] += 1
            res["outcomes"].append(round(opt, 5))
            msg = judge(spec, recipe, backend, obs, opt)
            if msg:
                res["violations"].append({"msg": msg + " [2 annotators, assignment-problem oracle]",
                                          "case": {"assignment": a, "recipe": recipe, "backend": backend}})
            else:
                res["nontrivial"].append(key)
    return res


def replay(case):
    if "assignment" in case:
        from ..oracles import optimum_two_annotators
        spec = assignment_spec(case["assignment"])
        opt = optimum_two_annotators(spec, case["recipe"])
        obs = A.eval_case(spec, case["recipe"], case["backend"], KIND)
        msg = judge(spec, case["recipe"], case["backend"], obs, opt)
        return [{"msg": msg, "case": case}] if msg else []
    opt = optimum(case["spec"], case["recipe"], cover=COVER)
    obs = A.eval_case(case["spec"], case["recipe"], case["backend"], KIND, warm=case.get("warm"))
    msg = judge(case["spec"], case["recipe"], case["backend"], obs, opt)
    return [{"msg": msg, "case": case}] if msg else []
