"""C18 - file import and export are faithful.

E3 over file contents: CSV round trips for every combination of awkward annotator / label texts,
delimiters and times; generated RTTM, TextGrid and ELAN files x every tier selection x both
label modes.  Oracle: the generator's own record (for TextGrid / ELAN: the records as returned by
the third-party reader, so that only the adapter is judged).
"""
import itertools
import os
import shutil
import tempfile

from ..runner import h
from ..spec import build_continuum, continuum_to_spec, cont

ID = "C18"
TASK_TIMEOUT = 900.0
META = {
    "rule": "case = one generated file (or continuum written to a file) x reader options; non-trivial = distinct "
            "cases with at least one awkward text (space, quote, delimiter, unicode, empty, newline, carriage return) "
            "or a tier selection / label mode other than the default; outcomes = distinct loaded continua",
    "assumptions": ["TextGrid / ELAN files are produced and re-read with the same third-party libraries; only the "
                    "adapter code of the repository is judged", "ELAN annotations with an empty value are unspecified",
                    "CSV round trip claimed for labelled units only (an unlabelled unit is written as an empty field)"],
    "explanation": "explicit enumeration of file contents from finite alphabets x reader options",
}

TEXTS = ["plain", "with space", 'quo"te', "apo'strophe", "com,ma", "semi;colon", "tab\there", "pi|pe", " leading",
         "unicodé ✓", "", "new\nline", "cr\rhere", "crlf\r\nx", "trailing "]
DELIMS = [",", ";", "\t", "|", " "]
TIMES = [(0, 1), (0.1, 1 / 3), (1e-3, 2.5e10), (5, 7.25), (-3.5, -1)]


def tmpdir():
    return tempfile.mkdtemp(prefix="c18_", dir=os.environ.get("TMPDIR", "/tmp"))


def spec_key(spec):
    return h(sorted((a, tuple(map(tuple, sorted(us, key=lambda u: (u[0], u[1], str(u[2])))))) for a, us in spec["annotators"]))


def csv_cases(tier):
    out = []
    pairs = [(a, "lab") for a in TEXTS if a != ""] + [("ann", l) for l in TEXTS]
    if tier == "thorough":
        pairs += [(a, l) for a in TEXTS for l in TEXTS]
    else:
        pairs += [(a, l) for a in TEXTS[1::2] for l in TEXTS[::3]]
    for k, (a, l) in enumerate(pairs):
        for d in DELIMS:
            t1, t2 = TIMES[k % len(TIMES)], TIMES[(k + 2) % len(TIMES)]
            spec = cont((a, [(t1[0], t1[1], l), (t2[0], t2[1], "second")]), ("other", [(t2[0], t2[1], l)]))
            out.append({"fmt": "csv", "spec": spec, "delim": d})
    # unit times held as NumPy scalars (segments computed from arrays): float64 and int64 print like the Python numbers
    for k, tt in enumerate(("float64", "int64", "float64")):
        for d in DELIMS[:2]:
            times = [(0, 1), (5, 7), (-3, -1)] if tt == "int64" else TIMES
            t1, t2 = times[k % len(times)], times[(k + 2) % len(times)]
            spec = cont(("ann", [(t1[0], t1[1], "lab"), (t2[0], t2[1], "second")]), ("other", [(t2[0], t2[1], "lab")]))
            out.append({"fmt": "csv", "spec": spec, "delim": d, "timetype": tt})
    return out


def build_typed(pa, spec, tt):
    import numpy as np
    from pyannote.core import Segment
    conv = getattr(np, tt)
    c = pa.Continuum()
    for name, units in spec["annotators"]:
        c.add_annotator(name)
        for s_, e_, lab in units:
            c.add(name, Segment(conv(s_), conv(e_)), lab)
    return c


def run_csv(pa, case, d):
    spec, delim = case["spec"], case["delim"]
    c = build_continuum(spec) if not case.get("timetype") else build_typed(pa, spec, case["timetype"])
    path = os.path.join(d, "f.csv")
    c.to_csv(path, delimiter=delim)
    back = pa.Continuum.from_csv(path, delimiter=delim)
    probs = []
    if not (back == c) or (back != c):
        probs.append(f"from_csv(to_csv(c)) != c: wrote {continuum_to_spec(c)} read {continuum_to_spec(back)} "
                     f"(delimiter {delim!r})")
    elif list(back.categories) != list(c.categories):
        probs.append(f"categories {list(c.categories)} became {list(back.categories)} after a CSV round trip")
    elif continuum_to_spec(back) != continuum_to_spec(c):
        probs.append("round trip changed units although == holds")
    return probs, continuum_to_spec(back)


def zero_cases():
    out = []
    for d in DELIMS[:3]:
        for flag in (True, False):
            out.append({"fmt": "csvzero", "delim": d, "discard": flag})
    return out


def run_csvzero(pa, case, d):
    import csv
    path = os.path.join(d, "z.csv")
    # labels y / z and annotator c appear on zero-length rows only
    rows = [["a", "x", 0, 1], ["a", "y", 2, 2], ["b", "x", 1.5, 3], ["b", "z", 4.0, 4.0], ["c", "x", 7, 7]]
    with open(path, "w", newline="") as f:
        csv.writer(f, delimiter=case["delim"]).writerows(rows)
    probs = []
    try:
        c = pa.Continuum.from_csv(path, discard_invalid_rows=case["discard"], delimiter=case["delim"])
        if not case["discard"]:
            probs.append("zero-length CSV row accepted although discard_invalid_rows=False")
        else:
            got = continuum_to_spec(c)
            want = {"annotators": [["a", [[0.0, 1.0, "x"]]], ["b", [[1.5, 3.0, "x"]]]]}
            if got != want:
                probs.append(f"zero-length rows not discarded properly: {got}")
            elif list(c.categories) != ["x"]:
                probs.append(f"discarded zero-length rows left their labels in the categories: {list(c.categories)}")
        return probs, continuum_to_spec(c)
    except ValueError as e:
        if case["discard"]:
            probs.append(f"discard_invalid_rows=True but ValueError: {e}")
        return probs, None


def csvrows_cases(tier):
    """A CSV file is a bag of rows: every permutation of the rows of small files (annotators interleaved, a
    duplicated row) must load as the same continuum."""
    out = []
    files = [
        [["a", "x", 0, 1], ["a", "y", 2, 3.5], ["b", "x", 0.5, 1], ["b", "z", 4, 5], ["a", "x", 6, 7]],
        [["b", "k", 0, 2], ["a", "k", 0, 2], ["b", "k", 0, 2], ["c", "", 1, 2]],
    ]
    for rows in files:
        perms = list(itertools.permutations(range(len(rows))))
        if tier == "quick":
            perms = perms[::3]
        for perm in perms:
            out.append({"fmt": "csvrows", "rows": [rows[i] for i in perm], "delim": ","})
    out.append({"fmt": "csvrows", "rows": [files[0][i] for i in (0, 2, 1, 3, 4)], "delim": ";"})
    return out


def run_csvrows(pa, case, d):
    import csv
    path = os.path.join(d, "rows.csv")
    with open(path, "w", newline="") as f:
        csv.writer(f, delimiter=case["delim"]).writerows(case["rows"])
    c = pa.Continuum.from_csv(path, delimiter=case["delim"])
    want = {}
    for a, lab, s, e in case["rows"]:
        want.setdefault(a, set()).add((float(s), float(e), lab))
    got = {a: set((float(u[0]), float(u[1]), u[2]) for u in us) for a, us in continuum_to_spec(c)["annotators"]}
    probs = []
    if got != want:
        probs.append(f"CSV rows {case['rows']} loaded as {continuum_to_spec(c)['annotators']}: not one unit per row "
                     f"under its annotator")
    elif sorted(c.categories) != sorted({r[1] for r in case["rows"]}):
        probs.append(f"categories {list(c.categories)} after loading rows with labels {sorted({r[1] for r in case['rows']})}")
    return probs, continuum_to_spec(c)


def rttm_cases(tier):
    out = []
    turns_menu = [
        [("fileA", 0.0, 1.5, "spk1")],
        [("fileA", 0.25, 1.125, "spk1"), ("fileA", 0.5, 2.0, "spk2"), ("fileB", 10.0, 0.001, "spk1")],
        [("fileA", 3.0, 1.0, "A"), ("fileB", 3.0, 1.0, "A"), ("fileB", 4.0, 0.333, "B")],
        [("u", 100.5, 20.25, "x_y"), ("u", 100.5, 20.25, "z"), ("u", 0.0, 0.1, "x_y")],
    ]
    for t in turns_menu:
        out.append({"fmt": "rttm", "turns": t})
    return out


def run_rttm(pa, case, d):
    path = os.path.join(d, "f.rttm")
    with open(path, "w") as f:
        for uri, start, dur, spk in case["turns"]:
            f.write(f"SPEAKER {uri} 1 {start} {dur} <NA> <NA> {spk} <NA> <NA>\n")
    c = pa.Continuum.from_rttm(path)
    want = {}
    for uri, start, dur, spk in case["turns"]:
        want.setdefault(uri, set()).add((start, start + dur, spk))
    got = {a: set((u[0], u[1], u[2]) for u in us) for a, us in continuum_to_spec(c)["annotators"]}
    probs = []
    if sorted(got) != sorted(want):
        probs.append(f"RTTM annotators {sorted(got)} but the file has URIs {sorted(want)}")
    else:
        for a in want:
            if len(got[a]) != len(want[a]) or any(
                    not any(abs(g[0] - w[0]) < 1e-9 and abs(g[1] - w[1]) < 1e-9 and g[2] == w[2] for g in got[a])
                    for w in want[a]):
                probs.append(f"RTTM units of {a}: {sorted(got[a])} but the file says {sorted(want[a])}")
    return probs, continuum_to_spec(c)


TIER_SETS = [
    [("T1", [(0, 1.5, "a"), (1.5, 3.25, ""), (3.25, 4, 'quo"te')])],
    [("T1", [(0, 2, "x y"), (2, 5, "é,;")]), ("tier two", [(0, 1, "b"), (1, 5, "")])],
    [("A", [(0.5, 1, "m")]), ("B", [(0.5, 1, "m"), (2, 3, "n")])],
]


def tier_cases(tier):
    out = []
    for fmt in ("textgrid", "elan"):
        for ts in TIER_SETS:
            names = [n for n, _ in ts]
            sels = [None, []] + [list(c) for k in range(1, len(names) + 1) for c in itertools.combinations(names, k)]
            sels.append(["absent"])
            for sel in sels:
                for mode in (False, True):
                    out.append({"fmt": fmt, "tiers": ts, "sel": sel, "tier_as_label": mode})
    return out


def run_tiers(pa, case, d):
    probs = []
    records = []  # (tier, start, end, value) as the third-party reader returns them
    if case["fmt"] == "textgrid":
        import textgrid
        tg = textgrid.TextGrid()
        for name, ivs in case["tiers"]:
            t = textgrid.IntervalTier(name, 0, 5)
            for s, e, mark in ivs:
                t.add(s, e, mark)
            tg.append(t)
        path = os.path.join(d, "f.TextGrid")
        tg.write(path)
        back = textgrid.TextGrid.fromFile(path)
        for t in back:
            for iv in t:
                records.append((t.name, iv.minTime, iv.maxTime, iv.mark))
        c = pa.Continuum()
        c.add_textgrid("ann", path, selected_tiers=case["sel"], use_tier_as_annotation=case["tier_as_label"])
    else:
        import pympi
        eaf = pympi.Eaf()
        eaf.remove_tier("default")
        for name, ivs in case["tiers"]:
            eaf.add_tier(name)
            for s, e, mark in ivs:
                if mark == "":
                    continue  # empty ELAN values are unspecified: not generated
                eaf.add_annotation(name, int(s * 1000), int(e * 1000), mark)
        path = os.path.join(d, "f.eaf")
        eaf.to_file(path)
        back = pympi.Eaf(path)
        for name in back.get_tier_names():
            for s, e, v in back.get_annotation_data_for_tier(name):
                records.append((name, s, e, v))
        c = pa.Continuum()
        c.add_elan("ann", path, selected_tiers=case["sel"], use_tier_as_annotation=case["tier_as_label"])
    want = set()
    for name, s, e, v in records:
        if case["sel"] is not None and name not in case["sel"]:
            continue
        if case["fmt"] == "textgrid" and not v:
            continue
        want.add((s, e, name if case["tier_as_label"] else v))
    spec = continuum_to_spec(c)
    got = set()
    for a, us in spec["annotators"]:
        if a != "ann":
            probs.append(f"units loaded under annotator {a!r} instead of 'ann'")
        got |= {(u[0], u[1], u[2]) for u in us}
    if got != want:
        probs.append(f"{case['fmt']} reader (tiers {case['sel']}, tier as label {case['tier_as_label']}) gave "
                     f"{sorted(got, key=str)} but the file holds {sorted(want, key=str)}")
    return probs, spec


RUNNERS = {"csv": run_csv, "csvrows": run_csvrows, "csvzero": run_csvzero, "rttm": run_rttm, "textgrid": run_tiers, "elan": run_tiers}


def all_cases(tier):
    return csv_cases(tier) + csvrows_cases(tier) + zero_cases() + rttm_cases(tier) + tier_cases(tier)


def shards(tier, seed):
    cases = all_cases(tier)
    per = max(1, len(cases) // 32)
    return [{"cases": cases[i:i + per]} for i in range(0, len(cases), per)]


def awkward(case):
    if case["fmt"] == "csv":
        texts = [a for a, _ in case["spec"]["annotators"]] + [u[2] for _, us in case["spec"]["annotators"] for u in us]
        return any(t not in ("plain", "lab", "ann", "other", "second") for t in texts) or case["delim"] != ","
    if case["fmt"] in ("textgrid", "elan"):
        return case["sel"] is not None or case["tier_as_label"]
    return True


def run(task):
    from ..load import load
    pa = load()
    res = {"evaluations": 0, "transitions": 0, "traces": 0, "state_set": [], "nontrivial": [], "outcomes": [],
           "samples": [], "violations": [], "unspecified": 0, "extra": {}}
    d = tmpdir()
    try:
        for case in task["cases"]:
            res["evaluations"] += 1
            res["transitions"] += 2
            res["traces"] += 1
            key = h(case)
            res["state_set"].append(key)
            try:
                probs, loaded = RUNNERS[case["fmt"]](pa, case, d)
            except Exception as e:  # noqa
                probs, loaded = [f"{case['fmt']} import/export raised {type(e).__name__}: {e}"], None
            if loaded is not None:
                res["outcomes"].append(h(loaded))
            if probs:
                res["violations"].append({"msg": probs[0], "case": case, "sig": h([case["fmt"], probs[0][:50], key])})
            elif awkward(case):
                res["nontrivial"].append(key)
                if len(res["samples"]) < 2 and case["fmt"] in ("csv", "textgrid"):
                    res["samples"].append(case)
    finally:
        shutil.rmtree(d, ignore_errors=True)
    return res


def replay(case):
    from ..load import load
    pa = load()
    d = tmpdir()
    try:
        try:
            probs, _ = RUNNERS[case["fmt"]](pa, case, d)
        except Exception as e:  # noqa
            probs = [f"{case['fmt']} import/export raised {type(e).__name__}: {e}"]
    finally:
        shutil.rmtree(d, ignore_errors=True)
    return [{"msg": probs[0], "case": case}] if probs else []
