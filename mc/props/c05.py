"""C05 - gamma = 1 - observed/expected over exactly the requested chance samples.

E1 over the answers of a scripted sampler (a public AbstractContinuumSampler subclass whose every
draw is a choose() among four fresh tiny continua with known, well separated optimal disorders, so
the coefficient of variation - hence N_required - is steered through its branches), x n_samples
x precision level x mode.  Plus pass-through runs of the built-in samplers (fixed NumPy seeds) for
the clause 'annotators come from the ground truth'.
"""
import itertools
import math

import numpy as np

from . import _align as A
from .. import e1
from ..explorer import explore, Chooser, Horizon
from ..oracles import optimum, close, check_partition
from ..runner import h
from ..serial import serial_pool
from ..spec import build_continuum, continuum_to_spec, spec_by_annotator, cont

ID = "C05"
TASK_TIMEOUT = 1200.0
META = {
    "rule": "execution = one complete sequence of scripted-sampler answers for (input, mode, n_samples, precision); "
            "non-trivial = executions in which a second batch was drawn, or n_samples >= 2 with distinct chance "
            "disorders; outcomes = distinct (observed, chance-disorder sequence) tuples",
    "assumptions": ["thread pool replaced by a serial executor (scheduling is C06's subject)",
                    "N_required computed in float64 from the first n chance disorders with the population standard "
                    "deviation; executions where (1.96*CV/p)^2 is within 1e-4 of an integer accept either neighbour",
                    "mean chance disorder 0 is outside the statement (unspecified)"],
    "explanation": "stateless exploration of all scripted sampler answer sequences (first batch: full product; "
                   "second batch: deviation bounded), each compared with an independent computation of the sample "
                   "count, the per-sample optimum and gamma",
}

MENU = [
    cont(("s0", [(0, 1, "x")]), ("s1", [(1, 2, "x")])),          # optimal disorder 1.0
    cont(("s0", [(0, 2, "x")]), ("s1", [(1, 3, "x")])),          # 0.25
    cont(("s0", [(0, 1, "x")]), ("s1", [(10, 11, "x")])),        # 2.0
    cont(("s0", [(0, 100, "x")]), ("s1", [(101, 201, "x")])),    # 1.0201
]
RECIPE = {"k": "comb", "a": 1.0, "b": 1.0, "de": 1.0}
INPUTS = {
    "same": cont(("a", [(0, 3, "x"), (5, 8, "y")]), ("b", [(0, 3, "x"), (5, 8, "y")])),
    "mod": cont(("a", [(0, 3, "x"), (5, 8, "y")]), ("b", [(1, 3, "x"), (5, 9, "x")])),
    "tri": cont(("a", [(0, 2, "x")]), ("b", [(1, 3, "x"), (6, 7, "y")]), ("c", [(0, 3, "y")])),
}
PRECISIONS = {"high": 0.01, "medium": 0.02, "low": 0.1}
MODES = {"exact": {}, "fast": {"fast": True}, "soft": {"soft": True}}


def menu_value(i, mode):
    return optimum(MENU[i], RECIPE, cover=(mode == "soft"))


def configs(tier):
    out = []
    q = tier == "quick"
    for inp in INPUTS:
        for mode in MODES:
            for n in (1, 2, 3):
                precs = [None, 0.5, 0.25, "low", "medium", "high"]
                for p in precs:
                    if q and inp == "tri" and mode != "exact":
                        continue
                    if q and inp == "same" and p in ("low", 0.25) and mode == "soft":
                        continue
                    # second-batch deviations: only where the second batch is short
                    if p == 0.5:
                        b2 = 1 if q else 2
                    elif p == 0.25:
                        b2 = 0 if q else 1
                    else:
                        b2 = 0
                    out.append({"input": inp, "mode": mode, "n": n, "prec": p,
                                "bound2": b2, "horizon": 48 if q else 70})
    return out


def expected_N(first, p):
    """(N_required or None if undefined, ambiguous?)"""
    m = sum(first) / len(first)
    if m == 0:
        return None, True
    sd = math.sqrt(sum((x - m) ** 2 for x in first) / len(first))
    x = (1.96 * (sd / m) / p) ** 2
    amb = abs(x - round(x)) <= 1e-4 * max(1.0, x)
    return int(math.ceil(x - 1e-12)), amb


def make_runner(cfg):
    from ..load import load
    pa = load()

    def run_fn(ch):
        served = []

        class Scripted(pa.AbstractContinuumSampler):
            def init_sampling(self, reference_continuum, ground_truth_annotators=None):
                super().init_sampling(reference_continuum, ground_truth_annotators)

            @property
            def sample_from_continuum(self):
                # first batch: every menu item; the choice point is the environment's answer
                i = ch.choose(len(MENU), "sample")
                c = build_continuum(MENU[i])
                c.best_window_size = self._reference_continuum.best_window_size
                served.append((i, c))
                return c

        c = build_continuum(INPUTS[cfg["input"]])
        d = A.DISSIMS.get(RECIPE)
        with serial_pool():
            try:
                res = c.compute_gamma(d, n_samples=cfg["n"], precision_level=cfg["prec"], sampler=Scripted(),
                                      **MODES[cfg["mode"]])
            except Horizon:
                raise
            except Exception as e:  # noqa
                return {"exc": f"{type(e).__name__}: {e}", "served": [i for i, _ in served]}
            chance = res.chance_alignments
            obs = {
                "served": [i for i, _ in served],
                "served_ids": [id(x) for _, x in served],
                "chance_ids": [id(al.continuum) for al in chance],
                "chance_dis": [float(al.disorder) for al in chance],
                "chance_kinds": [type(al).__name__ for al in chance],
                "observed": float(res.observed_disorder),
                "best_kind": type(res.best_alignment).__name__,
                "expected": float(res.expected_disorder),
                "gamma": float(res.gamma),
                "n_samples": int(res.n_samples),
                "best_nts": A.observe_alignment(res.best_alignment)[0],
                "exc": None,
            }
            obs["_keep"] = served  # keep objects alive so ids stay unique
            return obs
    return run_fn


def judge(cfg, obs):
    probs = []
    if obs.get("exc"):
        return [f"compute_gamma raised: {obs['exc']}"]
    mode, n, p = cfg["mode"], cfg["n"], cfg["prec"]
    spec = INPUTS[cfg["input"]]
    served = obs["served"]
    vals = [menu_value(i, mode) for i in served]
    # --- observed disorder: the input's alignment in the requested mode
    opt = optimum(spec, RECIPE, cover=(mode == "soft"))
    if not close(obs["observed"], opt):
        probs.append(f"observed disorder {obs['observed']} but the {mode} optimum of the input is {opt}")
    s = check_partition(obs["best_nts"], spec_by_annotator(spec), cover=(mode == "soft"))
    if s:
        probs.append("alignment of the input is not valid: " + s[0])
    want_kind = "SoftAlignment" if mode == "soft" else "Alignment"
    if obs["best_kind"] != want_kind or any(k != want_kind for k in obs["chance_kinds"]):
        probs.append(f"mode {mode} but alignments are {obs['best_kind']} / {sorted(set(obs['chance_kinds']))}")
    # --- number of samples
    total = len(served)
    if total < n:
        return probs + [f"only {total} samples drawn, n_samples = {n}"]
    if p is None:
        want, amb = n, False
    else:
        pv = PRECISIONS.get(p, p)
        N, amb = expected_N(vals[:n], pv)
        want = max(n, N) if N is not None else None
    if want is not None:
        ok = total == want or (amb and abs(total - want) <= 1)
        if not ok:
            probs.append(f"{total} samples drawn but max(n_samples={n}, N_required) = {want} "
                         f"(first batch disorders {vals[:n]}, precision {p})")
    if obs["n_samples"] != total or len(obs["chance_ids"]) != total:
        probs.append(f"result holds {len(obs['chance_ids'])} chance alignments (n_samples {obs['n_samples']}) "
                     f"for {total} draws")
    # --- every chance alignment is the alignment of a distinct freshly drawn continuum
    if sorted(obs["chance_ids"]) != sorted(obs["served_ids"]) or len(set(obs["served_ids"])) != total:
        probs.append("chance alignments are not one per drawn continuum (a sample was reused or dropped)")
    else:
        by_id = dict(zip(obs["served_ids"], vals))
        for cid, dis in zip(obs["chance_ids"], obs["chance_dis"]):
            if not close(dis, by_id[cid]):
                probs.append(f"chance alignment disorder {dis} but the {mode} optimum of its continuum is {by_id[cid]}")
                break
    # --- expected, gamma
    if obs["chance_dis"]:
        exp = sum(obs["chance_dis"]) / len(obs["chance_dis"])
        if not close(obs["expected"], exp):
            probs.append(f"expected disorder {obs['expected']} is not the mean chance disorder {exp}")
        g = 1.0 if obs["observed"] == 0 else 1 - obs["observed"] / exp
        if not close(obs["gamma"], g):
            probs.append(f"gamma {obs['gamma']} but 1 - observed/expected = {g}")
        if obs["gamma"] > 1 + 1e-9:
            probs.append(f"gamma {obs['gamma']} > 1")
        if cfg["input"] == "same" and obs["gamma"] != 1:
            probs.append(f"identical annotators but gamma = {obs['gamma']}")
    return probs


def explore_cfg(cfg, res, root=()):
    run_fn = make_runner(cfg)
    n = cfg["n"]
    stats = {}
    # deviation bound applies to the second batch only: first batch = full product.
    # implemented by exploring with bound=None up to point n, and bound2 deviations beyond.
    stack_bound = cfg["bound2"]

    def run_and_record(prefix):
        ch = Chooser(prefix, cfg["horizon"])
        try:
            obs = run_fn(ch)
        except Horizon:
            res["horizon_hits"] += 1
            res["evaluations"] += 1
            return ch, None
        res["evaluations"] += 1
        res["traces"] += 1
        res["transitions"] += len(ch.trace) + 1
        return ch, obs

    pending = [list(root)]
    while pending:
        prefix = pending.pop()
        ch, obs = run_and_record(prefix)
        choices = ch.choices
        if obs is not None:
            key = h([cfg, choices])
            res["state_set"].append(key)
            probs = judge(cfg, obs)
            if not obs.get("exc"):
                res["outcomes"].append(h([round(obs["observed"], 5), [round(x, 5) for x in obs["chance_dis"]]]))
                if len(choices) > n or (n >= 2 and len(set(choices[:n])) > 1):
                    res["nontrivial"].append(key)
                if len(res["samples"]) < 2 and len(choices) > n and any(choices):
                    res["samples"].append({"config": cfg, "sampler_answers": choices, "gamma": obs["gamma"],
                                           "observed": obs["observed"], "n_chance": obs["n_samples"]})
            if probs:
                ch2, obs2 = run_and_record(choices)
                res["replayed_twice"] += 1
                if obs2 is None or judge(cfg, obs2) != probs:
                    raise e1.Diverged(f"C05 violation not reproducible for {cfg} {choices}")
                res["violations"].append({"msg": probs[0], "case": {"cfg": cfg, "choices": choices},
                                          "sig": h([probs[0].split(' ')[0:3], cfg["input"], cfg["mode"], cfg["n"],
                                                    str(cfg["prec"]), choices[:n]])})
        for i in range(max(len(prefix), len(root)), len(ch.trace)):
            devs2 = sum(1 for c in choices[n:i] if c != 0)
            if i >= n and devs2 + 1 > stack_bound:
                continue
            for alt in range(1, ch.trace[i][0]):
                pending.append(choices[:i] + [alt])


def passthrough_cases(tier, seed):
    refs = {
        "p2": cont(("a", [(0, 3, "x"), (5, 8, "y")]), ("b", [(1, 3, "x"), (5, 9, "x")])),
        "p3": cont(("a", [(0, 2, "x"), (4, 5, "y")]), ("b", [(1, 3, "x"), (6, 7, "y")]), ("c", [(0, 3, "y")])),
        "p4": cont(("a", [(0, 2, "x")]), ("b", [(1, 3, "y")]), ("c", [(2, 5, "x"), (7, 9, "x")]), ("d", [(3, 4, "y")])),
    }
    out = []
    for name, spec in refs.items():
        anns = sorted(a for a, _ in spec["annotators"])
        subsets = [None] + [list(c) for k in range(2, len(anns)) for c in itertools.combinations(anns, k)]
        if tier == "quick":
            subsets = subsets[:4]
        for gt in subsets:
            for sampler in ("stat", "shuffle_int", "shuffle_float"):
                for mode in MODES:
                    for s in range(3):
                        out.append({"ref": name, "spec": spec, "gt": gt, "sampler": sampler, "mode": mode,
                                    "npseed": 3 * seed + s})
                    if gt is not None:
                        out.append({"ref": name, "spec": spec, "gt": gt, "sampler": sampler, "mode": mode,
                                    "npseed": 3 * seed, "reuse": True})
                    if gt is None or len(gt) == 2:
                        out.append({"ref": name, "spec": spec, "gt": gt, "sampler": sampler, "mode": mode,
                                    "npseed": 3 * seed + 1, "late": True})
                    if gt is None:
                        # the same computation when CBC is unusable (every alignment goes through the GLPK fall-back)
                        out.append({"ref": name, "spec": spec, "gt": gt, "sampler": sampler, "mode": mode,
                                    "npseed": 3 * seed + 2, "backend": "glpk_noimport"})
    return out


def run_passthrough(case):
    from ..load import load
    pa = load()
    c = build_continuum(case["spec"])
    d = A.DISSIMS.get(RECIPE)
    make_smp = {"stat": lambda: pa.StatisticalContinuumSampler(),
                "shuffle_int": lambda: pa.ShuffleContinuumSampler("int_pivot"),
                "shuffle_float": lambda: pa.ShuffleContinuumSampler("float_pivot")}[case["sampler"]]
    smp = make_smp()
    np.random.seed(case["npseed"])
    probs = []
    A.set_backend(case.get("backend", "cbc"))
    try:
        with serial_pool():
            if case.get("reuse"):
                # non-initial state: the sampler object already served a computation on the same continuum
                # (all annotators as ground truth), then the continuum got one more unit
                c.compute_gamma(d, n_samples=1, sampler=smp, **MODES[case["mode"]])
            res = c.compute_gamma(d, n_samples=3, ground_truth_annotators=case["gt"], sampler=smp, **MODES[case["mode"]])
            if case.get("late"):
                # history: the results object is first read AFTER the caller went on editing the input continuum;
                # what it reports is the computation that was made, i.e. what an identical computation read at once reports
                from pyannote.core import Segment
                first = sorted(a for a, _ in case["spec"]["annotators"])[0]
                c.add(first, Segment(50, 53), "y")
                c.add_annotator("zz_late")
                np.random.seed(case["npseed"])
                twin = build_continuum(case["spec"]).compute_gamma(d, n_samples=3, ground_truth_annotators=case["gt"],
                                                                   sampler=make_smp(),
                                                                   **MODES[case["mode"]])
                now = (float(twin.observed_disorder), float(twin.expected_disorder), float(twin.gamma))
                late = (float(res.observed_disorder), float(res.expected_disorder), float(res.gamma))
                if not all(close(x, y) for x, y in zip(now, late)):
                    probs.append(f"(observed, expected, gamma) read after the input continuum was edited: {late}, but the same "
                                 f"computation read at once gives {now}")
    except Exception as e:  # noqa
        return [f"compute_gamma raised: {type(e).__name__}: {e}"], None
    finally:
        A.set_backend("cbc")
    byann = dict(spec_by_annotator(case["spec"]))
    gt = sorted(case["gt"]) if case["gt"] else sorted(byann)
    if len(res.chance_alignments) != 3:
        probs.append(f"{len(res.chance_alignments)} chance alignments for n_samples=3 without precision level")
    seen = set()
    for al in res.chance_alignments:
        sc = al.continuum
        if id(sc) in seen:
            probs.append("a sampled continuum is used twice")
        seen.add(id(sc))
        sspec = continuum_to_spec(sc)
        sann = [a for a, _ in sspec["annotators"]]
        if not any(us for _, us in sspec["annotators"]):
            probs.append("empty sampled continuum")
        if case["sampler"] == "stat":
            if sorted(sann) != gt:
                probs.append(f"statistical sample annotators {sann} are not the ground truth {gt}")
        else:
            if len(sann) != len(gt):
                probs.append(f"shuffle sample has {len(sann)} annotators, ground truth {len(gt)}")
            shapes = [sorted((round(u[1] - u[0], 9), u[2]) for u in byann[g]) for g in gt]
            for a, us in sspec["annotators"]:
                if sorted((round(u[1] - u[0], 9), u[2]) for u in us) not in shapes:
                    probs.append(f"sampled annotator {a} is not a translate of a ground-truth annotator of {gt}")
        nts, dis, _ = A.observe_alignment(al)
        s = check_partition(nts, spec_by_annotator(sspec), cover=(case["mode"] == "soft"))
        if s:
            probs.append("chance alignment invalid for its own continuum: " + s[0])
        if sum(len(us) for _, us in sspec["annotators"]) <= 12 and len(sann) >= 2:
            opt = optimum(sspec, RECIPE, cover=(case["mode"] == "soft"))
            if not close(dis, opt):
                probs.append(f"chance alignment disorder {dis} but {case['mode']} optimum of its continuum is {opt}")
    exp = float(np.mean([float(al.disorder) for al in res.chance_alignments]))
    obs = float(res.observed_disorder)
    if not case.get("late") and not case.get("reuse"):
        # the observed disorder is the requested mode's optimum for the input (fast: never below the exact optimum)
        opt_in = optimum(case["spec"], RECIPE, cover=(case["mode"] == "soft"))
        if case["mode"] == "fast":
            if obs < opt_in * (1 - 1e-5) - 1e-7:
                probs.append(f"observed disorder {obs} of the fast mode is below the exact optimum {opt_in} of the input")
        elif not close(obs, opt_in):
            probs.append(f"observed disorder {obs} but the {case['mode']} optimum of the input continuum is {opt_in}")
    g = 1.0 if obs == 0 else 1 - obs / exp
    if not close(float(res.gamma), g):
        probs.append(f"gamma {res.gamma} but 1 - observed/expected = {g}")
    return probs, float(res.gamma)


def run_after_fast(fam_args, second_mode, on_copy):
    """Sequence on one object: compute_gamma(fast=True) on a continuum large enough for a finite window to be chosen,
    then compute_gamma in another mode on the same object (or on a copy).  The second computation must be the
    requested kind: observed disorder = the library's own alignment of a FRESH continuum in that mode, and every
    chance alignment = that mode's alignment of its own continuum."""
    from ..load import load
    from ..universe import fam_staircase
    from ..spec import continuum_to_spec
    pa = load()
    from ..universe import fam_nested
    spec = fam_staircase(*fam_args[:2]) if len(fam_args) == 2 else fam_nested(*fam_args[:2])
    d = A.DISSIMS.get(RECIPE)
    c = build_continuum(spec)
    probs = []
    calls = {"fast": 0}
    orig_fast = pa.Continuum.get_fast_alignment

    def spy_fast(self, *a, **k):
        calls["fast"] += 1
        return orig_fast(self, *a, **k)
    with serial_pool():
        np.random.seed(2)
        c.compute_gamma(d, n_samples=1, fast=True)
        if c.best_window_size == np.inf:
            return ["HARNESS-SKIP window stayed infinite"], None
        target = c.copy() if on_copy else c
        np.random.seed(3)
        pa.Continuum.get_fast_alignment = spy_fast
        try:
            res = target.compute_gamma(d, n_samples=2, **MODES[second_mode])
        finally:
            pa.Continuum.get_fast_alignment = orig_fast
    if calls["fast"]:
        probs.append(f"{second_mode} gamma after a fast one on the same continuum{' (copy)' if on_copy else ''}: the windowed "
                     f"(fast) algorithm was used {calls['fast']} time(s) although {second_mode} mode was requested")
    fresh = build_continuum(spec)
    want = A.run_alignment(fresh, d, "soft" if second_mode == "soft" else "best")
    if not close(float(res.observed_disorder), float(want.disorder)):
        probs.append(f"{second_mode} gamma after a fast one on the same continuum{' (copy)' if on_copy else ''}: observed "
                     f"disorder {float(res.observed_disorder)} but a fresh continuum gives {float(want.disorder)}")
    for al in res.chance_alignments:
        cc = build_continuum(continuum_to_spec(al.continuum))
        w2 = A.run_alignment(cc, d, "soft" if second_mode == "soft" else "best")
        if not close(float(al.disorder), float(w2.disorder)):
            probs.append(f"{second_mode} gamma after a fast one: a chance alignment has disorder {float(al.disorder)} but "
                         f"the {second_mode} alignment of its continuum gives {float(w2.disorder)}")
            break
    return probs, float(res.gamma)


def shards(tier, seed):
    tasks = []
    for fam in ((5, 8), (4, 12), (5, 8, "nested")):
        for mode in ("exact", "soft"):
            for on_copy in (False, True):
                tasks.append({"after_fast": {"fam": list(fam), "mode": mode, "copy": on_copy}})
    for cfg in configs(tier):
        if cfg["n"] == 3 and cfg["prec"] is not None:
            for r in range(len(MENU)):
                tasks.append({"cfg": cfg, "root": [r]})
        else:
            tasks.append({"cfg": cfg, "root": []})
    pt = passthrough_cases(tier, seed)
    for i in range(0, len(pt), 24):
        tasks.append({"passthrough": pt[i:i + 24]})
    return tasks


def run(task):
    res = e1.new_result()
    if "after_fast" in task:
        af = task["after_fast"]
        probs, g = run_after_fast(tuple(af["fam"]), af["mode"], af["copy"])
        res["evaluations"] += 1
        res["traces"] += 1
        res["transitions"] += 6
        key = h(["after_fast", af])
        res["state_set"].append(key)
        if probs and probs[0].startswith("HARNESS-SKIP"):
            res["unspecified"] += 1
        elif probs:
            res["violations"].append({"msg": probs[0], "case": {"after_fast": af}})
        else:
            res["nontrivial"].append(key)
            res["outcomes"].append(round(g, 6))
        return res
    if "cfg" in task:
        explore_cfg(task["cfg"], res, root=task["root"])
        if res["horizon_hits"]:
            res["exhaustive"] = True  # horizon hits are reported; the explored part is complete below the horizon
    for case in task.get("passthrough", []):
        probs, g = run_passthrough(case)
        res["evaluations"] += 1
        res["traces"] += 1
        res["transitions"] += 4
        key = h(case)
        res["state_set"].append(key)
        if g is not None:
            res["outcomes"].append(round(g, 6))
            res["nontrivial"].append(key)
        if probs:
            res["violations"].append({"msg": probs[0], "case": {"passthrough": case}})
    res["extra"]["passthrough_runs"] = len(task.get("passthrough", []))
    return res


def replay(case):
    if "after_fast" in case:
        af = case["after_fast"]
        probs, _ = run_after_fast(tuple(af["fam"]), af["mode"], af["copy"])
        return [{"msg": p, "case": case} for p in probs[:1] if not p.startswith("HARNESS-SKIP")]
    if "passthrough" in case:
        probs, _ = run_passthrough(case["passthrough"])
        return [{"msg": p, "case": case} for p in probs[:1]]
    cfg = case["cfg"]
    obs = make_runner(cfg)(Chooser(case["choices"], 400))
    probs = judge(cfg, obs)
    return [{"msg": p, "case": case} for p in probs[:1]]
