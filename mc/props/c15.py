"""C15 - the statistical sampler emits valid continua with the reference's statistics.

E1 over RNG answers.  Every draw: non-empty, exactly the ground-truth annotators, segments longer
than the precision, categories of the reference / supplied list.  The distributional sentence is
decided as conformance of the request trace: every request must be one of normal(count law),
normal(gap law), normal(duration law), choice(categories, p=weights) with the supplied parameters
or with parameters recomputed independently from the reference (any defensible convention), in the
grammar COUNT (GAP DUR+ CAT)* per annotator, and the sample must be exactly what the generative
model builds from the served answers.  NumPy's generator itself is trusted.
"""
import itertools
import math

from .. import e1
from ..rngseam import Policy, Z_GENERIC
from ..spec import build_continuum, continuum_to_spec, spec_by_annotator, cont

import numpy as np

ID = "C15"
TASK_TIMEOUT = 900.0
PRECISION = 1e-6
META = {
    "rule": "execution = one complete answer sequence for (reference | custom parameters, ground truth); "
            "non-trivial = executions whose sample has >= 2 units for some annotator, or a negative gap, or a "
            "sign-flipped duration, or a re-drawn duration; outcomes = distinct samples",
    "assumptions": ["np.random is the sampler's only source of randomness (diverging replay = harness error)",
                    "a normal law may answer any real: count answers {1.38, 0.41, 2.62, -1.73}, gap / duration "
                    "answers mu + z*sigma for generic z; boundary answer 0 (forces a re-draw) only under the "
                    "deviation bound", "NumPy's generator follows the law it is asked for"],
    "explanation": "stateless exploration of all RNG answer sequences of the real sampler (full product for <= 2 "
                   "ground-truth annotators, deviation bound for 3), oracle = generative model + request-trace "
                   "conformance",
}

REFS = {
    # three laws with pairwise different (mu, sigma)
    "A": cont(("a", [(1, 3, "x"), (5, 6, "y")]), ("b", [(0, 4, "x")])),
    "B": cont(("a", [(2, 3, "x"), (4, 7, "y"), (8, 8.5, "z")]), ("b", [(0.5, 2.5, "x")]),
              ("c", [(1, 2, "z"), (6, 10, "z")])),
    "C": cont(("p", [(0, 1, "m")]), ("q", [(0, 1, "m"), (3, 9, "n")]), ("r", [])),
    # the empty string is a category like any other (what from_csv gives for an empty column)
    "E": cont(("a", [(0, 2, ""), (3, 4, "x"), (6, 9, "")]), ("b", [(1, 2, "")])),
}
# fixed-length windows of a non-dyadic length: the measured deviation of the durations is (nearly) zero
REFS["F"] = cont(("a", [(0, 0.3, "x"), (0.5, 0.8, "y"), (1.1, 1.4, "x")]), ("b", [(0.2, 0.5, "x"), (0.9, 1.2, "y")]))
REFS["G"] = cont(("a", [(0.7, 1.4, "x"), (2.1, 2.8, "x")]), ("b", [(0, 0.7, "x")]))
CUSTOM = {
    "K1": dict(annotators=["u", "v"], avg_num_units_per_annotator=1.5, std_num_units_per_annotator=0.75,
               avg_gap=2.0, std_gap=3.0, avg_duration=4.0, std_duration=1.25, categories=["k", "l"],
               categories_weight=[0.25, 0.75]),
    "K2": dict(annotators=["u", "v"], avg_num_units_per_annotator=2.0, std_num_units_per_annotator=0.5,
               avg_gap=1.0, std_gap=0.0, avg_duration=0.5, std_duration=2.0, categories=["k", "l", "m"],
               categories_weight=None),
}
COUNT_ANSWERS = [1.3819660112501051, 0.4142135623730951, 2.6180339887498950, -1.7320508075688772]


def mean_std(xs, ddof):
    n = len(xs)
    if n == 0 or n - ddof <= 0:
        return None
    m = sum(xs) / n
    return m, math.sqrt(sum((x - m) ** 2 for x in xs) / (n - ddof))


def accepted_params(spec, gt):
    """Sets of acceptable (mu, sigma) per law and acceptable (categories, weights)."""
    byann_all = spec_by_annotator(spec)
    out = {"count": [], "gap": [], "dur": [], "cat": []}
    for scope in (byann_all, [(a, us) for a, us in byann_all if a in gt]):
        for ddof in (0, 1):
            ms = mean_std([len(us) for _, us in scope], ddof)
            if ms:
                out["count"].append(ms)
            ms = mean_std([u[1] - u[0] for _, us in scope for u in us], ddof)
            if ms:
                out["dur"].append(ms)
            for lead0 in (True, False):
                for first in (True, False, "all"):
                    gaps = [0.0] if lead0 else []
                    for _, us in scope:
                        for p, q in zip(us, us[1:]):
                            gaps.append(q[0] - p[1])
                        if us and ((first is True and us[0][0] > 0) or first == "all"):
                            gaps.append(us[0][0])
                    ms = mean_std(gaps, ddof)
                    if ms:
                        out["gap"].append(ms)
        units = [u for _, us in scope for u in us]
        cats = sorted({u[2] for u in units})
        if units:
            out["cat"].append((cats, [sum(1 for u in units if u[2] == c) / len(units) for c in cats]))
    return out


def near(a, b):
    return abs(a - b) <= 1e-9 * max(1.0, abs(a), abs(b))


def near_pair(p, q):
    return near(p[0], q[0]) and near(p[1], q[1])


class StatPolicy(Policy):
    """Identifies the count law by position (first request of an annotator block is not knowable here), so it
    answers by parameters: the check passes the accepted count parameters."""

    def __init__(self, count_params, nz=3, boundary=False, ncount=4):
        super().__init__(nz=nz, boundary=boundary)
        self.count_params = count_params
        self.ncount = ncount

    def normal(self, mu, sigma, log):
        if any(near_pair((mu, sigma), cp) for cp in self.count_params):
            if sigma == 0:
                return [float(mu)]
            return COUNT_ANSWERS[: self.ncount]
        return super().normal(mu, sigma, log)


def configs(tier):
    out = []
    out.append({"ref": "A", "gt": None, "bound": None, "nz": 3})
    out.append({"ref": "A", "gt": ["b"], "bound": None, "nz": 3})
    out.append({"ref": "C", "gt": ["q", "r"], "bound": None, "nz": 3})
    out.append({"ref": "C", "gt": ["r"], "bound": None, "nz": 5})
    out.append({"ref": "E", "gt": ["b"], "bound": None, "nz": 3})
    out.append({"ref": "E", "gt": None, "bound": 3 if tier == "quick" else 4, "nz": 5})
    for gt in (["a"], ["c"], ["a", "b"], ["b", "c"]):
        out.append({"ref": "B", "gt": gt, "bound": None if len(gt) == 1 else (3 if tier == "quick" else 5),
                    "nz": 3 if len(gt) == 1 else 5, "boundary": len(gt) > 1})
    out.append({"ref": "B", "gt": None, "bound": 2 if tier == "quick" else 3, "nz": 5, "boundary": True})
    out.append({"ref": "C", "gt": None, "bound": 2 if tier == "quick" else 4, "nz": 5, "boundary": True})
    out.append({"ref": "F", "gt": None, "bound": 2 if tier == "quick" else 3, "nz": 3})
    out.append({"ref": "F", "gt": ["b"], "bound": 3 if tier == "quick" else 4, "nz": 3})
    out.append({"ref": "G", "gt": None, "bound": 3 if tier == "quick" else 4, "nz": 3})
    out.append({"custom": "K1", "bound": None, "nz": 2 if tier == "quick" else 3, "ncount": 3})
    out.append({"custom": "K2", "bound": 3 if tier == "quick" else 5, "nz": 5, "boundary": True})
    # ---- non-initial states: the same sampler object re-initialised (other ground truth, mutated reference,
    #      custom <-> measured parameters) before the draw that is judged
    out.append({"ref": "B", "gt": ["c"], "history": [["init", ["a", "b"]]], "bound": None, "nz": 3})
    out.append({"ref": "B", "gt": ["a", "b"], "history": [["init", None]], "bound": 3 if tier == "quick" else 5,
                "nz": 5, "boundary": True})
    out.append({"ref": "A", "gt": ["b"], "history": [["init", None], ["add", "a", 10, 12, "y"]], "bound": None, "nz": 3})
    out.append({"ref": "A", "gt": None, "history": [["init", ["b"]], ["add", "b", 7, 7.5, "y"], ["init", ["a"]]],
                "bound": 3 if tier == "quick" else 4, "nz": 5})
    out.append({"ref": "A", "gt": ["b"], "history": [["custom", "K1"]], "bound": None, "nz": 3})
    # ground truth given as an iterable with a repeated name
    out.append({"ref": "B", "gt": ["a", "b", "a"], "bound": 3 if tier == "quick" else 5, "nz": 5})
    out.append({"ref": "A", "gt": ["b", "b"], "bound": None, "nz": 3})
    # a draw, then the reference grows, then re-initialisation: the judged draw follows the NEW reference
    out.append({"ref": "A", "gt": ["b"], "history": [["init", None], ["sample"], ["add", "b", 20, 26, "y"]],
                "bound": 2 if tier == "quick" else 3, "nz": 3})
    out.append({"custom": "K1", "history": [["initref", "A", None]], "bound": None, "nz": 2, "ncount": 3})
    # the caller's parameter collections are NumPy arrays / a list which the caller re-uses (overwrites in place)
    # after the initialisation: the draws follow what was supplied at initialisation
    out.append({"custom": "K1", "caller_overwrites": True, "bound": None, "nz": 2, "ncount": 3})
    # a later initialisation that the sampler refuses (unknown annotator; caught): draws follow the one that succeeded
    out.append({"ref": "B", "gt": ["a", "b"], "then_refused": ["nobody"], "bound": 3 if tier == "quick" else 5, "nz": 5})
    out.append({"ref": "A", "gt": None, "then_refused": ["b", "nobody"], "bound": None, "nz": 3})
    if tier == "thorough":
        out.append({"ref": "B", "gt": ["a", "c"], "bound": 5, "nz": 5, "boundary": True})
        out.append({"ref": "A", "gt": None, "bound": 4, "nz": 5, "boundary": True})
    return out


def cfg_spec(cfg):
    """the reference continuum as it is when the judged initialisation happens (after the history's mutations)"""
    spec = {"annotators": [[a, [list(u) for u in us]] for a, us in REFS[cfg["ref"]]["annotators"]]}
    for step in cfg.get("history", []):
        if step[0] == "add":
            for a, us in spec["annotators"]:
                if a == step[1]:
                    us.append([step[2], step[3], step[4]])
    return spec


def cfg_gt(cfg):
    if "custom" in cfg:
        return sorted(CUSTOM[cfg["custom"]]["annotators"])
    anns = sorted(a for a, _ in REFS[cfg["ref"]]["annotators"])
    return sorted(set(cfg["gt"])) if cfg.get("gt") else anns  # an iterable with a repeated name names each annotator once


def laws(cfg):
    """accepted parameter sets for this configuration"""
    if "custom" in cfg:
        k = CUSTOM[cfg["custom"]]
        cats = list(k["categories"])
        w = k["categories_weight"]
        return {"count": [(k["avg_num_units_per_annotator"], k["std_num_units_per_annotator"])],
                "gap": [(k["avg_gap"], k["std_gap"])], "dur": [(k["avg_duration"], k["std_duration"])],
                "cat": [(cats, w)]}
    return accepted_params(cfg_spec(cfg), cfg_gt(cfg))


def policy_for(cfg):
    return StatPolicy(laws(cfg)["count"], nz=cfg.get("nz", 3), boundary=cfg.get("boundary", False),
                      ncount=cfg.get("ncount", 4))


def make_fn_factory(cfg):
    from ..load import load
    pa = load()

    def make_fn():
        from pyannote.core import Segment
        s = pa.StatisticalContinuumSampler()
        c = build_continuum(REFS[cfg["ref"]]) if "ref" in cfg else None

        def fn():
            # the history runs under the RNG seam too (a "sample" step consumes answers)
            for step in cfg.get("history", []):
                if step[0] == "init":
                    s.init_sampling(c, step[1])
                elif step[0] == "sample":
                    s.sample_from_continuum
                elif step[0] == "add":
                    c.add(step[1], Segment(step[2], step[3]), step[4])
                elif step[0] == "custom":
                    s.init_sampling_custom(**CUSTOM[step[1]])
                elif step[0] == "initref":
                    s.init_sampling(build_continuum(REFS[step[1]]), step[2])
            e1.mark("judged")
            if "custom" in cfg and cfg.get("caller_overwrites"):
                kw = dict(CUSTOM[cfg["custom"]])
                kw["annotators"] = list(kw["annotators"])
                kw["categories"] = np.array(kw["categories"])
                kw["categories_weight"] = np.array(kw["categories_weight"], dtype=np.float64)
                s.init_sampling_custom(**kw)
                kw["categories"][:] = "zz"
                kw["categories_weight"][:] = kw["categories_weight"][::-1].copy()
                kw["annotators"].append("intruder")
            elif "custom" in cfg:
                s.init_sampling_custom(**CUSTOM[cfg["custom"]])
            else:
                s.init_sampling(c, cfg.get("gt"))
            if cfg.get("then_refused"):
                try:
                    s.init_sampling(c, cfg["then_refused"])
                except Exception:  # noqa - refused and caught by the caller
                    pass
            return continuum_to_spec(s.sample_from_continuum)
        return fn
    return make_fn


def judge_factory(cfg):
    gt = cfg_gt(cfg)
    L = laws(cfg)

    def kind(e):
        if e["fn"] == "normal":
            ks = [k for k in ("count", "gap", "dur") if any(near_pair((e["mu"], e["sigma"]), p) for p in L[k])]
            return ks
        if e["fn"] == "choice":
            for cats, w in L["cat"]:
                if sorted(e["items"]) == sorted(cats) and len(e["items"]) == len(cats):
                    order = [cats.index(x) for x in e["items"]]
                    if w is None:
                        if e["p"] is None or all(near(x, 1 / len(cats)) for x in e["p"]):
                            return ["cat"]
                    elif e["p"] is not None and all(near(e["p"][i], w[order[i]]) for i in range(len(cats))):
                        return ["cat"]
            return []
        return []

    def judge(val, exc, log):
        if exc is not None:
            return [(f"sampler raised: {exc}", None)]
        for k in range(len(log) - 1, -1, -1):
            if log[k]["fn"] == "mark" and log[k]["event"] == "judged":
                log = log[k + 1:]  # only the requests of the draw that is judged
                break
        log = [e for e in log if e["fn"] != "mark"]
        probs = []
        anns = val["annotators"]
        names = [a for a, _ in anns]
        if sorted(names) != gt:
            probs.append((f"sample annotators {names} are not exactly the ground truth {gt}", None))
        if not any(us for _, us in anns):
            probs.append(("empty sample", None))
        allowed = set()
        for cats, _ in L["cat"]:
            allowed |= set(cats)
        for a, us in anns:
            for s, e, lab in us:
                if not (e - s >= PRECISION * (1 - 1e-9)):
                    probs.append((f"segment [{s}, {e}] of {a} is not longer than the segment precision", None))
                if lab not in allowed:
                    probs.append((f"category {lab!r} is not a category of the reference / supplied list", None))
        if probs:
            return probs
        # ---- request-trace conformance + generative model
        kinds = [kind(e) for e in log]
        for e, k in zip(log, kinds):
            if not k:
                desc = {x: e[x] for x in e if x in ("fn", "mu", "sigma", "items", "p")}
                return [(f"request {desc} is none of the count / gap / duration / category laws of the "
                         f"reference (accepted: count {L['count'][:2]}, gap {L['gap'][:2]}, dur {L['dur'][:2]})", None)]
        i = 0
        model = {}
        total = 0

        def take(k):
            nonlocal i
            if i >= len(log) or k not in kinds[i]:
                raise ValueError(f"request #{i} should be the {k} law, trace has "
                                 f"{(log[i]['fn'], kinds[i]) if i < len(log) else 'ended'}")
            e = log[i]
            i += 1
            return e["answer"] if e["fn"] == "normal" else e["items"][e["answer"]]

        try:
            for a in gt:
                nb = abs(int(take("count")))
                if total == 0:
                    nb = max(1, nb)
                last = 0.0
                units = set()
                for _ in range(nb):
                    gap = take("gap")
                    start = last + gap
                    dur = abs(take("dur"))
                    while dur < PRECISION:
                        dur = abs(take("dur"))
                    lab = take("cat")
                    units.add((start, start + dur, lab))
                    last = start + dur
                    total += 1
                model[a] = units
            if i != len(log):
                raise ValueError(f"{len(log) - i} request(s) beyond what the sample needs")
        except ValueError as e:
            return [(f"request trace does not follow COUNT (GAP DUR+ CAT)* per annotator: {e}", None)]
        from .c16 import match_sets
        for a, us in anns:
            got = set((u[0], u[1], u[2]) for u in us)
            if not match_sets(model.get(a, set()), got):
                probs.append((f"units of {a} are {sorted(got)} but the served answers give "
                              f"{sorted(model.get(a, set()))}", None))
        return probs
    return judge


def shards(tier, seed):
    tasks = []
    for cfg in configs(tier):
        mf = make_fn_factory(cfg)
        for root in e1.compute_roots(mf, policy_for(cfg), depth=3, bound=cfg["bound"], horizon=300):
            tasks.append({"cfg": cfg, "root": root})
    return tasks


def run(task):
    cfg = task["cfg"]
    res = e1.new_result()

    def case_of(choices):
        return {"cfg": cfg, "choices": choices}

    def outcome_of(val, exc, log):
        return None if exc is not None else val

    def nontrivial_of(val, exc, log):
        if exc is not None:
            return False
        multi = any(len(us) >= 2 for _, us in val["annotators"])
        neg = any(e["fn"] == "normal" and e["answer"] < 0 for e in log)
        return multi or neg

    def sample_of(val, exc, log, choices):
        if exc is not None or sum(1 for c in choices if c) < 2:
            return None
        return {"config": cfg, "choices": choices,
                "requests": [{k: v for k, v in e.items() if k not in ("i",)} for e in log][:8], "sample": val}

    e1.explore_config(make_fn_factory(cfg), judge_factory(cfg), policy_for(cfg), root=task["root"],
                      bound=cfg["bound"], horizon=300, res=res, case_of=case_of, outcome_of=outcome_of,
                      nontrivial_of=nontrivial_of, sample_of=sample_of)
    return res


def replay(case):
    from ..explorer import Chooser
    cfg = case["cfg"]
    val, exc, log = e1.run_with_seam(make_fn_factory(cfg)(), Chooser(case["choices"]), policy_for(cfg))
    return [{"msg": m, "known": k, "case": case} for m, k in judge_factory(cfg)(val, exc, log)]
