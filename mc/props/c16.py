"""C16 - the shuffle sampler emits wrapped translations with separated pivots.

E1 over RNG answers: for each reference x ground-truth subset x pivot type, every answer
sequence (available segment x 4 uniform answers x ground-truth annotator, per sampled
annotator) is executed on the real sampler; the sample must be exactly what the statement
predicts from the served answers.
"""
import itertools

from .. import e1
from ..rngseam import Policy
from ..runner import h
from ..spec import build_continuum, continuum_to_spec, spec_by_annotator, cont

ID = "C16"
TASK_TIMEOUT = 900.0
META = {
    "rule": "execution = one complete answer sequence of the RNG seam for (reference, ground truth, pivot type); "
            "non-trivial = executions in which at least one unit wrapped around or the pool of available segments "
            "was exhausted or >= 2 different annotators were drawn; outcomes = distinct pivot tuples",
    "assumptions": ["np.random is the sampler's only source of randomness (a diverging replay is a harness error)",
                    "continuous draws represented by generic answers + the lower boundary of each uniform request",
                    "separation asserted with 1e-9 slack, only when every pivot came from a non-empty pool",
                    "the empty-sample retry loop is forced at most once (then only annotators with units are offered)"],
    "explanation": "stateless exploration of all RNG answer sequences of the real sampler (deviation bound = none "
                   "for <= 3 sampled annotators, 2 for 5), oracle = generative model driven by the same answers",
}

REFS = {
    "r2": {"spec": cont(("a", [(0, 4, "x"), (6, 9, "y")]), ("b", [(1, 5, "x")])), "reset": False},
    "r3": {"spec": cont(("a", [(0.5, 3.25, "x"), (4, 7.5, "y")]), ("b", [(2, 2.75, "x"), (8, 11.5, "x")]),
                        ("c", [])), "reset": True},
    "r3long": {"spec": cont(("a", [(0, 1, "x"), (10, 11, "y")]), ("b", [(20, 21, "x")]), ("c", [(39, 40, None)])),
               "reset": False},
    "r3neg": {"spec": cont(("a", [(-3, -1, "x"), (2, 5, "y")]), ("b", [(0, 1.5, "x")]), ("c", [(4, 6, "y")])),
              "reset": False},
    "r5": {"spec": cont(("a", [(0, 2, "x")]), ("b", [(3, 5, "y"), (6, 7, "x")]), ("c", [(1, 4, "x")]),
                        ("d", []), ("e", [(8, 12, "y")])), "reset": False},
}


class ShufflePolicy(Policy):
    def __init__(self, nonempty):
        super().__init__(nt=3, boundary=False)
        self.nonempty = nonempty

    def uniform(self, a, b, log):
        m = super().uniform(a, b, log)
        if a != b:
            m.append(float(a))
        return m

    def choice(self, n, p, log, items=None):
        idx = super().choice(n, p, log, items)
        if p is None and items is not None and items.dtype.kind in "US":
            # annotator choice: an annotator with units first, so the default leaves the retry loop;
            # the adversary may force ONE retry (all-empty first pass), afterwards only annotators
            # with units are offered - otherwise the answer tree is infinite
            done = sum(1 for e in log if e["fn"] == "choice" and e["p"] is None)
            if done >= len(items):
                idx = [i for i in idx if str(items[i]) in self.nonempty] or idx
            idx.sort(key=lambda i: (str(items[i]) not in self.nonempty, i))
        return idx


def configs(tier):
    out = []
    for name, ref in REFS.items():
        anns = sorted(a for a, _ in ref["spec"]["annotators"])
        subsets = [None]
        if tier == "thorough" or name in ("r3",):
            for k in range(2, len(anns)):
                subsets += [list(c) for c in itertools.combinations(anns, k)]
        elif name == "r5":
            subsets += [["a", "d"], ["b", "c", "e"]]
        for gt in subsets:
            for pivot in ("float_pivot", "int_pivot"):
                ngt = len(gt) if gt else len(anns)
                gtn = gt if gt else anns
                has_empty = any(not us for a, us in ref["spec"]["annotators"] if a in gtn)
                if ngt <= 2 or (ngt == 3 and not has_empty):
                    bound = None  # full product (finite: the retry loop is forced at most once)
                elif ngt == 3:
                    bound = 3 if tier == "quick" else 5
                else:
                    bound = 2 if tier == "quick" else 3
                out.append({"ref": name, "gt": gt, "pivot": pivot, "bound": bound})
    out.append({"ref": "r3", "gt": ["a", "b"], "pivot": "float_pivot", "bound": None, "history": [["init", None]]})
    out.append({"ref": "r3", "gt": None, "pivot": "int_pivot", "bound": 3, "history": [["init", ["a", "b"]]]})
    out.append({"ref": "r2", "gt": None, "pivot": "float_pivot", "bound": None, "history": [["initref", "r3long"]]})
    # a draw, then the reference grows (other bounds, other average length), then re-initialisation
    out.append({"ref": "r2", "gt": None, "pivot": "float_pivot", "bound": 2 if tier == "quick" else 3,
                "history": [["init", None], ["sample"], ["add", "a", 20, 30, "x"]]})
    out.append({"ref": "r3", "gt": ["a", "b"], "pivot": "int_pivot", "bound": 2 if tier == "quick" else 3,
                "history": [["init", None], ["sample"], ["add", "b", -6, -2, "y"]]})
    # ground truth given as an iterable with a repeated name
    out.append({"ref": "r3", "gt": ["a", "b", "a"], "pivot": "float_pivot", "bound": None})
    # after the judged initialisation the caller tries another one that the sampler refuses (unknown annotator) and
    # catches the error: the draws still follow the initialisation that succeeded
    out.append({"ref": "r3", "gt": ["a", "b"], "pivot": "float_pivot", "bound": None, "then_refused": ["nobody"]})
    out.append({"ref": "r3", "gt": None, "pivot": "int_pivot", "bound": 3, "then_refused": ["a", "nobody"]})
    return out


def make_fn_factory(cfg):
    from ..load import load
    pa = load()
    ref = REFS[cfg["ref"]]

    def make_fn():
        c = build_continuum(ref["spec"])
        if ref["reset"]:
            c.reset_bounds()
        s = pa.ShuffleContinuumSampler(pivot_type=cfg["pivot"])

        def fn():
            from pyannote.core import Segment
            for prev in cfg.get("history", []):
                # non-initial state: the same sampler object was initialised / used before, the reference grew
                if prev[0] == "init":
                    s.init_sampling(c, prev[1])
                elif prev[0] == "initref":
                    s.init_sampling(build_continuum(REFS[prev[1]]["spec"]), None)
                elif prev[0] == "sample":
                    s.sample_from_continuum
                elif prev[0] == "add":
                    c.add(prev[1], Segment(prev[2], prev[3]), prev[4])
            e1.mark("judged")
            s.init_sampling(c, cfg["gt"])
            if cfg.get("then_refused"):
                try:
                    s.init_sampling(c, cfg["then_refused"])
                except Exception:  # noqa - refused and caught by the caller
                    pass
            sample = s.sample_from_continuum
            return continuum_to_spec(sample), c.bounds, c.avg_length_unit
        return fn
    return make_fn


def policy_for(cfg):
    ref = REFS[cfg["ref"]]
    nonempty = {a for a, us in ref["spec"]["annotators"] if us}
    return ShufflePolicy(nonempty)


def parse_log(log):
    """Split the request log into rounds (one per pass of the retry loop) of per-annotator records."""
    recs = []
    i = 0
    while i < len(log):
        r = {}
        e = log[i]
        if e["fn"] == "choice" and e["p"] is not None:
            r["pool"] = e
            i += 1
            e = log[i]
            assert e["fn"] == "uniform", e
            r["uniform"] = e
            i += 1
        elif e["fn"] == "uniform":
            r["pool"] = None
            r["uniform"] = e
            i += 1
        else:
            r["pool"] = "fallback"  # choice over the pool raised ValueError: pivot = 1
            r["uniform"] = None
        e = log[i]
        assert e["fn"] == "choice", e
        r["annot"] = e
        i += 1
        recs.append(r)
    return recs


def cfg_spec(cfg):
    spec = {"annotators": [[a, [list(u) for u in us]] for a, us in REFS[cfg["ref"]]["spec"]["annotators"]]}
    for step in cfg.get("history", []):
        if step[0] == "add":
            for a, us in spec["annotators"]:
                if a == step[1]:
                    us.append([step[2], step[3], step[4]])
    return spec


def judge_factory(cfg):
    ref = REFS[cfg["ref"]]
    byann = dict(spec_by_annotator(cfg_spec(cfg)))
    gt = sorted(set(cfg["gt"])) if cfg["gt"] else sorted(byann)
    int_mode = cfg["pivot"] == "int_pivot"

    def judge(val, exc, log):
        probs = []
        if exc is not None:
            return [(f"sampler raised: {exc}", None)]
        sample, (binf, bsup), avg = val
        dist = avg / 2
        n = len(gt)
        anns = sample["annotators"]
        if not any(us for _, us in anns):
            probs.append(("empty sample returned", None))
        if len(anns) != n:
            probs.append((f"sample has {len(anns)} annotators, ground truth has {n}", None))
            return probs
        for k in range(len(log) - 1, -1, -1):
            if log[k]["fn"] == "mark" and log[k]["event"] == "judged":
                log = log[k + 1:]
                break
        log = [e for e in log if e["fn"] != "mark"]
        try:
            recs = parse_log(log)
        except (AssertionError, IndexError, KeyError) as e:
            return [(f"request trace does not follow 'pivot then annotator' per sampled annotator: {e!r}", None)]
        if len(recs) % n != 0 or not recs:
            return [(f"request trace has {len(recs)} pivot/annotator rounds for {n} sampled annotators", None)]
        last = recs[-n:]
        # earlier rounds must all have produced empty samples (retry loop)
        for k in range(0, len(recs) - n, n):
            for r in recs[k:k + n]:
                who = r["annot"]["items"][r["annot"]["answer"]]
                if byann.get(who):
                    probs.append(("retry although the previous pass produced a non-empty sample", None))
        expected = []
        pivots, raws, pooled = [], [], []
        for r in last:
            who = r["annot"]["items"][r["annot"]["answer"]]
            if r["annot"]["p"] is not None or sorted(r["annot"]["items"]) != gt:
                probs.append((f"annotator drawn from {r['annot']['items']} (p={r['annot']['p']}), "
                              f"ground truth is {gt}", None))
            if r["uniform"] is None:
                probs.append(("pivot not drawn at all (fallback constant)", None))
                return probs
            raw = r["uniform"]["answer"]
            # integer mode: the pivot is a whole number obtained from the draw (truncation today; rounding, floor or
            # ceiling would satisfy the statement as well) - the one the sample was really built with is identified
            import math as _m
            cands = [raw] if not int_mode else list(dict.fromkeys(
                [float(int(raw)), float(_m.floor(raw)), float(_m.ceil(raw)), float(round(raw))]))
            piv = cands[0]
            for cand in cands:
                exp_c = set()
                for (s_, e_, lab_) in byann.get(who, []):
                    sh_ = cand + binf - bsup if s_ + cand > bsup else cand
                    exp_c.add((s_ + sh_, e_ + sh_, lab_))
                if any(match_sets(exp_c, set((u[0], u[1], u[2]) for u in us)) for _, us in anns):
                    piv = cand
                    break
            ua, ub = r["uniform"]["a"], r["uniform"]["b"]
            if not (binf - 1e-9 <= ua <= ub <= bsup + 1e-9):
                probs.append((f"pivot drawn from [{ua}, {ub}] which is not within the bounds [{binf}, {bsup}]", None))
            if r["pool"] is not None:
                p = r["pool"]["p"]
                # the pool request must weight each available segment by its length
                # (items are Segment reprs; lengths are re-derived from the uniform request of the chosen one only)
                if p is None or any(x < 0 for x in p):
                    probs.append(("available segments not weighted by length", None))
            pivots.append(piv)
            raws.append(raw)
            pooled.append(r["pool"] is not None)
            exp = set()
            for (s, e, lab) in byann.get(who, []):
                if s + piv > bsup:
                    sh = piv + binf - bsup
                else:
                    sh = piv
                exp.add((s + sh, e + sh, lab))
            expected.append(exp)
        got = [set((u[0], u[1], u[2]) for u in us) for _, us in anns]
        if not match_multisets(expected, got):
            probs.append((f"sample is not 'one ground-truth annotator shifted by its pivot (wrapped)': pivots "
                          f"{pivots}, sample {anns}", None))
        if all(pooled):
            for i in range(n):
                for j in range(i):
                    if abs(pivots[i] - pivots[j]) < dist - 1e-9:
                        known = None
                        # signature of the recorded finding: the later draw respected the zone around the
                        # earlier (truncated) pivot, only its own truncation moved it inside, by less than 1
                        if int_mode and abs(raws[i] - pivots[j]) >= dist - 1e-9 and \
                                abs(pivots[i] - pivots[j]) > dist - 1:
                            known = "int-pivot-truncation"
                        probs.append((f"pivots {pivots[j]} and {pivots[i]} are closer than avg unit length / 2 = "
                                      f"{dist} although every pivot came from the pool of available segments", known))
        return probs
    return judge


def close_units(a, b):
    return a[2] == b[2] and abs(a[0] - b[0]) <= 1e-9 * max(1, abs(a[0])) and abs(a[1] - b[1]) <= 1e-9 * max(1, abs(a[1]))


def match_sets(x, y):
    if len(x) != len(y):
        return False
    xs = sorted(x, key=lambda u: (u[0], u[1], str(u[2])))
    ys = sorted(y, key=lambda u: (u[0], u[1], str(u[2])))
    return all(close_units(a, b) for a, b in zip(xs, ys))


def match_multisets(exp, got):
    got = list(got)
    for e in exp:
        for k, g in enumerate(got):
            if match_sets(e, g):
                got.pop(k)
                break
        else:
            return False
    return not got


def shards(tier, seed):
    tasks = []
    for cfg in configs(tier):
        mf = make_fn_factory(cfg)
        for root in e1.compute_roots(mf, policy_for(cfg), depth=5, bound=cfg["bound"], horizon=400):
            tasks.append({"cfg": cfg, "root": root})
    return tasks


def run(task):
    cfg = task["cfg"]
    res = e1.new_result()
    judge = judge_factory(cfg)

    def case_of(choices):
        return {"cfg": cfg, "choices": choices}

    def outcome_of(val, exc, log):
        if exc is not None:
            return None
        return [e["answer"] for e in log if e["fn"] == "uniform"]

    def nontrivial_of(val, exc, log):
        if exc is not None:
            return False
        sample, (binf, bsup), avg = val
        who = {e["items"][e["answer"]] for e in log if e["fn"] == "choice" and e["p"] is None}
        pools = sum(1 for e in log if e["fn"] == "choice" and e["p"] is not None)
        unis = sum(1 for e in log if e["fn"] == "uniform")
        return len(who) >= 2 or unis > pools

    def sample_of(val, exc, log, choices):
        if exc is not None or len(choices) < 6 or sum(1 for c in choices if c) < 2:
            return None
        return {"config": cfg, "choices": choices, "requests": [{k: v for k, v in e.items() if k != "i"} for e in log][:9],
                "sample": val[0]}

    e1.explore_config(make_fn_factory(cfg), judge, policy_for(cfg), root=task["root"], bound=cfg["bound"],
                      horizon=400, res=res, case_of=case_of, outcome_of=outcome_of, nontrivial_of=nontrivial_of,
                      sample_of=sample_of)
    if cfg["bound"] is not None:
        res["extra"]["deviation_bounded_configs"] = 1
    return res


def replay(case):
    from ..explorer import Chooser
    cfg = case["cfg"]
    val, exc, log = e1.run_with_seam(make_fn_factory(cfg)(), Chooser(case["choices"]), policy_for(cfg))
    return [{"msg": m, "known": k, "case": case} for m, k in judge_factory(cfg)(val, exc, log)]
