"""C09 - disorder and gamma are invariant under renaming, translation and scaling.

Metamorphic relations over bounded universes and structured families (2x60, 3x15, 5x5 units):
every annotator permutation/renaming, translations, scalings, category renamings, delta_empty
factors; oracle: equal best-alignment disorder (x c for the delta_empty relation) and, for the
delta_empty relation, equal gamma for the same NumPy seed with both samplers.
"""
import itertools

import numpy as np

from . import _align as A
from ..oracles import close
from ..runner import h
from ..serial import serial_pool
from ..spec import build_continuum
from ..universe import fam_staircase, fam_nested, fam_interleaved, fam_identical, size_G

ID = "C09"
TASK_TIMEOUT = 1500.0
META = {
    "rule": "case = (continuum, dissimilarity, transformation); non-trivial = distinct cases whose base disorder is "
            "neither 0 nor the all-singletons value; outcomes = distinct base disorders",
    "assumptions": ["integer / dyadic time grids so that translated and scaled inputs stay exact in float32",
                    "disorders compared within 1e-4 relative (ties between optimal alignments are legitimate)",
                    "gamma compared only for the delta_empty relation (the statement claims nothing else for gamma)"],
    "explanation": "explicit enumeration of bounded inputs x transformation menu; each relation compares two runs of "
                   "the real optimiser",
}

TRANSLATIONS = [1000.0, -37.5, float(2 ** 20)]
SCALES = [3.0, 0.125, 1024.0]
FACTORS = [4.0, 0.25, 1.3]


def recipes_for(labels, idx):
    names = sorted(l for l in labels if l is not None)
    D = [{"k": "comb", "a": 1.0, "b": 1.0, "de": 1.0}, {"k": "pos", "de": 1.0},
         {"k": "comb", "a": 3.0, "b": 2.0, "de": 0.5}]
    if None not in labels and names:
        D.append({"k": "comb", "a": 1.0, "b": 1.0, "de": 2.0, "cat": {"k": "ord", "labels": ["x", "y"]}})
        # an ordinal scale declared in an order that is neither alphabetical nor its reverse (z < x < y)
        D.append({"k": "comb", "a": 1.0, "b": 2.0, "de": 1.0, "cat": {"k": "ord", "labels": ["z", "x", "y"]}})
    return [D[idx % len(D)]]


def map_spec(spec, ft=None, fa=None, fl=None):
    ft = ft or (lambda t: t)
    fa = fa or (lambda a: a)
    fl = fl or (lambda l: l)
    return {"annotators": [[fa(a), [[ft(u[0]), ft(u[1]), fl(u[2])] for u in us]] for a, us in spec["annotators"]]}


def scale_recipe(r, c):
    r = dict(r)
    r["de"] = r.get("de", 1.0) * c
    if r.get("cat") is not None:
        r["cat"] = dict(r["cat"], de=r["cat"].get("de", 1.0) * c)
    if r.get("pos") is not None:
        r["pos"] = dict(r["pos"], de=r["pos"].get("de", 1.0) * c)
    return r


def rename_recipe(r, fl):
    r = dict(r)
    if r.get("cat") is not None and "labels" in r["cat"]:
        r["cat"] = dict(r["cat"], labels=[fl(l) for l in r["cat"]["labels"]])
    return r


def transformations(spec, recipe, idx):
    """list of (name, transformed spec, transformed recipe, factor on the disorder)"""
    n = len(spec["annotators"])
    names = [a for a, _ in spec["annotators"]]
    out = []
    perms = list(itertools.permutations(range(n)))
    if n > 3:
        perms = [perms[(1 + 37 * k + idx) % len(perms)] for k in range(6)]
    else:
        perms = perms[1:] + [perms[0]]
    for p in perms:
        newnames = {names[i]: f"{'qponm'[p[i]]}{i}" for i in range(n)}
        out.append((f"annotators->{[newnames[a] for a in names]}", map_spec(spec, fa=lambda a: newnames[a]), recipe, 1.0))
    for t in TRANSLATIONS:
        out.append((f"translate {t}", map_spec(spec, ft=lambda x: x + t), recipe, 1.0))
    for s in SCALES:
        out.append((f"scale {s}", map_spec(spec, ft=lambda x: x * s), recipe, 1.0))
    cat = recipe.get("cat")
    if recipe["k"] == "comb" and (cat is None or cat["k"] == "abs"):
        ren = {"x": "q", "y": "b", "z": "a", "": "k", None: None}  # "" is a label like any other, None is "no label"
        out.append(("categories x->q y->b (arbitrary bijection)", map_spec(spec, fl=lambda l: ren.get(l, l)), recipe, 1.0))
    elif recipe["k"] == "comb" and len(cat.get("labels", [])) >= 3:
        # any bijection applied to the labels AND to the declared scale keeps every rank in the scale,
        # while the alphabetical order of the new names is a different permutation
        ren = {"z": "b", "x": "c", "y": "a", None: None}
        out.append(("categories z->b x->c y->a (scale order preserved, alphabetical order changed)",
                    map_spec(spec, fl=lambda l: ren.get(l, l)), rename_recipe(recipe, lambda l: ren.get(l, l)), 1.0))
    elif recipe["k"] == "comb":
        ren = {"x": "m", "y": "n", None: None}
        out.append(("categories x->m y->n (order preserving)", map_spec(spec, fl=lambda l: ren.get(l, l)),
                    rename_recipe(recipe, lambda l: ren.get(l, l)), 1.0))
    for c in FACTORS:
        out.append((f"delta_empty x{c}", spec, scale_recipe(recipe, c), c))
    return out


def best(spec, recipe, kind="best", window=None, warm=None):
    obs = A.eval_case(spec, recipe, "cbc", kind, window, warm=warm)
    return obs["disorder"] if obs["ok"] else None


def gamma(spec, recipe, sampler, seed):
    from ..load import load
    pa = load()
    c = build_continuum(spec)
    d = A.DISSIMS.get(recipe)
    s = None if sampler == "stat" else pa.ShuffleContinuumSampler()
    np.random.seed(seed)
    with serial_pool():
        return float(c.compute_gamma(d, n_samples=3, sampler=s).gamma)


def shards(tier, seed):
    XY = ["x", "y"]
    if tier == "quick":
        U = [dict(n=2, k=2, T=3, labels=XY, sym=True, every=3), dict(n=3, k=2, T=2, labels=XY, sym=True, every=3),
             dict(n=5, k=1, T=2, labels=XY, sym=True), dict(n=2, k=2, T=3, labels=[None], every=2)]
    else:
        U = [dict(n=2, k=2, T=3, labels=XY), dict(n=3, k=2, T=2, labels=XY, sym=True), dict(n=5, k=1, T=2, labels=XY),
             dict(n=2, k=2, T=3, labels=[None, "x"]), dict(n=4, k=1, T=2, labels=XY)]
    # short and long segments mixed (a short far unit followed by a long unit that is within reach again)
    LONG = [[0, 1], [2, 3], [2, 6], [0, 6], [5, 6], [1, 2]]
    U.append(dict(n=2, k=2, T=2, labels=["x", "y", "z"], every=3 if tier == "quick" else 1))
    U.append(dict(n=2, k=2, T=2, labels=[None, ""]))
    U.append(dict(n=3, k=1, T=2, labels=[None, "", "x"]))
    U.append(dict(n=2, k=2, T=6, labels=["x"], segs=LONG))
    U.append(dict(n=3, k=2, T=6, labels=["x"], segs=LONG[:4], sym=True, every=2 if tier == "quick" else 1))
    tasks = []
    for u in U:
        ns = max(1, min(48, size_G(u["n"], u["k"], u["T"], u["labels"], segs=u.get("segs")) // 100))
        for s in range(ns):
            tasks.append({"universe": {k: v for k, v in u.items() if k != "every"}, "shard": s, "nshards": ns,
                          "every": u.get("every", 1), "tier": tier})
    fams = []
    params = [(2, 60), (3, 15), (5, 5)] + ([(2, 30), (4, 6)] if tier == "thorough" else [])
    for n, q in params:
        for f in (fam_staircase, fam_nested, fam_interleaved, fam_identical):
            fams.append([f.__name__, n, q])
    for f in fams:
        tasks.append({"family": f, "tier": tier})
    return tasks


FAMS = {f.__name__: f for f in (fam_staircase, fam_nested, fam_interleaved, fam_identical)}


def run(task):
    res = {"evaluations": 0, "transitions": 0, "traces": 0, "state_set": [], "nontrivial": [], "outcomes": [],
           "samples": [], "violations": [], "unspecified": 0, "extra": {"gamma_relations": 0, "large_inputs": 0}}
    if "family" in task:
        name, n, q = task["family"]
        specs = [FAMS[name](n, q)]
        big = True
    else:
        specs = [s for i, s in enumerate(A.iter_task_specs(task)) if i % task.get("every", 1) == 0]
        big = False
    for idx, spec in enumerate(specs):
        labels = A.spec_label_set(spec)
        n = len(spec["annotators"])
        rec_list = recipes_for(labels, idx) if not big else [{"k": "comb", "a": 1.0, "b": 1.0, "de": 1.0},
                                                             {"k": "pos", "de": 0.5}]
        for recipe in rec_list:
            base = best(spec, recipe)
            res["evaluations"] += 1
            res["transitions"] += 1
            if base is None:
                continue
            if big:
                res["extra"]["large_inputs"] += 1
            de = recipe.get("de", 1.0)
            for name, tspec, trecipe, factor in transformations(spec, recipe, idx):
                got = best(tspec, trecipe)
                res["evaluations"] += 1
                res["transitions"] += 1
                res["traces"] += 1
                key = h([spec if not big else task["family"], recipe, name])
                res["state_set"].append(key)
                if got is None or not close(got, base * factor):
                    res["violations"].append({
                        "msg": f"best-alignment disorder {base} becomes {got} under '{name}' (expected {base * factor})",
                        "case": {"spec": spec if not big else None, "family": task.get("family"), "recipe": recipe,
                                 "transformation": name},
                        "sig": h([name.split(' ')[0], recipe, len(res["violations"]) // 3])})
                elif 0 < base < n * de * (1 - 1e-6):
                    res["nontrivial"].append(key)
                    if len(res["samples"]) < 2 and name.startswith("scale"):
                        res["samples"].append({"continuum": spec if not big else {"family": task["family"]},
                                               "dissimilarity": recipe, "transformation": name, "disorder": base,
                                               "transformed_disorder": got})
            res["outcomes"].append(round(base, 5))
            # the identity transformation, reached through another history: the same continuum obtained by editing a
            # neighbouring one that the SAME dissimilarity object has already been applied to
            if not big and idx % 3 == 0 and n >= 2:
                how = A.WARM_KINDS[(idx // 3) % len(A.WARM_KINDS)]
                got = best(spec, recipe, warm={"recipe": recipe, "how": how})
                res["evaluations"] += 1
                res["transitions"] += 2
                res["traces"] += 1
                res["state_set"].append(h([spec, recipe, "history", how]))
                if got is None or not close(got, base):
                    res["violations"].append({
                        "msg": f"best-alignment disorder {base} becomes {got} when the same continuum is reached by {how}() "
                               f"after an earlier alignment with the same dissimilarity",
                        "case": {"spec": spec, "recipe": recipe, "history": how},
                        "sig": h(["history", how, recipe, len(res["violations"]) // 3])})
            # "multiplying delta_empty by c multiplies EVERY disorder by c": also the fast alignment's (window 1, 2).
            # Only this relation is claimed for the heuristic: its windows follow absolute positions (a window's
            # limit starts from 0) and the label order of equal segments, so translations / renamings may
            # legitimately change which alignment it returns.
            if big or idx % 6 == 0:
                for w in (1, 2):
                    fbase = best(spec, recipe, "fast", w)
                    res["evaluations"] += 1
                    res["transitions"] += 1
                    if fbase is None:
                        continue
                    for name, tspec, trecipe, factor in transformations(spec, recipe, idx):
                        if not name.startswith("delta_empty"):
                            continue
                        got = best(tspec, trecipe, "fast", w)
                        res["evaluations"] += 1
                        res["transitions"] += 1
                        res["traces"] += 1
                        res["state_set"].append(h([spec if not big else task["family"], recipe, name, "fast", w]))
                        if got is None or not close(got, fbase * factor):
                            res["violations"].append({
                                "msg": f"fast-alignment disorder (window {w}) {fbase} becomes {got} under '{name}' "
                                       f"(expected {fbase * factor})",
                                "case": {"spec": spec if not big else None, "family": task.get("family"), "recipe": recipe,
                                         "transformation": name, "fast": w},
                                "sig": h(["fast", name.split(' ')[0], recipe, len(res["violations"]) // 3])})
            # gamma under the delta_empty relation (same seed, both samplers)
            if (big and n * len(spec["annotators"][1][1]) <= 45) or (not big and idx % 8 == 0 and n <= 3):
                for sampler in ("stat", "shuffle"):
                    try:
                        g0 = gamma(spec, recipe, sampler, 13 + idx)
                    except Exception:  # noqa
                        continue
                    for c in FACTORS:
                        try:
                            g1 = gamma(spec, scale_recipe(recipe, c), sampler, 13 + idx)
                        except Exception as e:  # noqa
                            g1 = None
                        res["evaluations"] += 1
                        res["transitions"] += 2
                        res["traces"] += 1
                        res["extra"]["gamma_relations"] += 1
                        if g1 is None or not close(g1, g0):
                            res["violations"].append({
                                "msg": f"gamma {g0} becomes {g1} when delta_empty is multiplied by {c} ({sampler} sampler, "
                                       f"seed {13 + idx})",
                                "case": {"spec": spec if not big else None, "family": task.get("family"),
                                         "recipe": recipe, "gamma": [sampler, 13 + idx, c]}})
    return res


def replay(case):
    spec = case["spec"] if case.get("spec") else FAMS[case["family"][0]](case["family"][1], case["family"][2])
    recipe = case["recipe"]
    if "gamma" in case:
        sampler, seed, c = case["gamma"]
        g0 = gamma(spec, recipe, sampler, seed)
        g1 = gamma(spec, scale_recipe(recipe, c), sampler, seed)
        return [] if close(g0, g1) else [{"msg": f"gamma {g0} becomes {g1} under delta_empty x{c}", "case": case}]
    if "history" in case:
        b0 = best(spec, recipe)
        b1 = best(spec, recipe, warm={"recipe": recipe, "how": case["history"]})
        return [] if (b0 is not None and b1 is not None and close(b0, b1)) else \
            [{"msg": f"disorder {b0} becomes {b1} when the continuum is reached by {case['history']}()", "case": case}]
    kind, w = ("fast", case["fast"]) if case.get("fast") else ("best", None)
    base = best(spec, recipe, kind, w)
    for idx in range(0, 50):
        for name, tspec, trecipe, factor in transformations(spec, recipe, idx):
            if name == case["transformation"]:
                got = best(tspec, trecipe, kind, w)
                if got is None or not close(got, base * factor):
                    return [{"msg": f"disorder {base} becomes {got} under '{name}'", "case": case}]
                return []
    return []
