"""C13 - Continuum behaves as sorted unit sets per annotator under any history.

E2: breadth-first search over operation histories of the real Continuum.  A state is the history
that reaches it; the real object is rebuilt by replaying the history on a fresh object.  After
every step the whole observable surface is compared with a plain set-per-annotator model.  States
are deduplicated by (model state, observable snapshot of the implementation).
"""
import itertools

from ..runner import h
from ..spec import unit_key, to_unit, from_unit

ID = "C13"
TASK_TIMEOUT = 1200.0
META = {
    "rule": "state = (model, observable snapshot of the real object) reached by an operation history; transition = "
            "one operation applied to the real object rebuilt by replay; non-trivial = distinct states holding >= 2 "
            "units or reached through remove / merge / copy / reset; outcomes = distinct final container contents",
    "assumptions": ["alphabet: 2(+1) annotators, segments [0,1] [0,2] [1,2] [-1,3] + zero-length [1,1] + reversed [2,1], "
                    "labels None/x/y", "bounds of an empty continuum after reset_bounds are unspecified",
                    "a reversed segment must either be rejected (state unchanged) or is not followed further"],
    "explanation": "explicit-state BFS over operation histories with a reference model compared after every step",
}

SEGS = [(0, 1), (0, 2), (1, 2), (-1, 3)]  # (-1, 3) sticks out of (0, 0) and of every reset extent on BOTH sides
BAD_SEGS = [(1, 1), (2, 1)]
LABELS = [None, "", "x"]  # "" is a legal label (an empty CSV field): it must sort after None and before "x"
FIXED_OTHER = [("add", "b", 0, 2, "y"), ("add", "c", 1, 2, None)]


def alphabet(model, depth_left=None):
    ops = []
    for a in ("a", "b"):
        for s, e in SEGS:
            for lab in LABELS:
                ops.append(("add", a, s, e, lab))
        for s, e in BAD_SEGS:
            ops.append(("add", a, s, e, None))
    for a in ("a", "b", "c"):
        ops.append(("add_annotator", a))
    for a in sorted(model["ann"]):
        for u in sorted(model["ann"][a], key=unit_key):
            ops.append(("remove", a) + tuple(u))
    ops.append(("remove", "a", 0, 1, "zz"))      # absent unit
    ops.append(("remove", "nobody", 0, 1, None))  # absent annotator
    ops.append(("reset_bounds",))
    ops.append(("copy",))
    for other in ("fixed", "prev"):
        ops.append(("merge_in", other))
        ops.append(("merge_out", other))
        ops.append(("plus", other))
    return ops


# ----------------------------------------------------------------------------- model

def new_model():
    return {"ann": {}, "ever": frozenset(), "enclose": frozenset(), "exact": None}


def model_apply(m, op, other_model=None):
    """returns (new model, expected exception class or None)"""
    k = op[0]
    m = {"ann": {a: set(us) for a, us in m["ann"].items()}, "ever": set(m["ever"]), "enclose": set(m["enclose"]),
         "exact": m["exact"]}
    if k == "add":
        _, a, s, e, lab = op
        if not e - s > 0:
            return None, ValueError
        m["ann"].setdefault(a, set()).add((s, e, lab))
        if lab is not None:
            m["ever"].add(lab)
        m["enclose"].add((s, e))
        m["exact"] = None
    elif k == "add_annotator":
        m["ann"].setdefault(op[1], set())
    elif k == "remove":
        _, a, s, e, lab = op
        if a not in m["ann"] or (s, e, lab) not in m["ann"][a]:
            return None, KeyError
        m["ann"][a].discard((s, e, lab))
    elif k == "reset_bounds":
        units = [u for us in m["ann"].values() for u in us]
        m["enclose"] = {(u[0], u[1]) for u in units}
        m["exact"] = (min(u[0] for u in units), max(u[1] for u in units)) if units else "unspecified"
    elif k == "copy":
        pass
    elif k in ("merge_in", "merge_out", "plus"):
        for a, us in other_model["ann"].items():
            m["ann"].setdefault(a, set()).update(us)
            for u in us:
                m["enclose"].add((u[0], u[1]))
        m["ever"] |= set(other_model["ever"])
        if any(other_model["ann"].values()):
            m["exact"] = None
    return m, None


def model_key(m):
    return (tuple((a, tuple(sorted(us, key=unit_key))) for a, us in sorted(m["ann"].items())),
            tuple(sorted(m["ever"])), tuple(sorted(m["enclose"])), str(m["exact"]))


# ----------------------------------------------------------------------------- implementation side

def snapshot(c):
    """Everything observable about a real continuum (public API only)."""
    anns = list(c.annotators)
    return {"annotators": anns,
            "units": {a: [from_unit(u) for u in c.iter_annotator(a)] for a in anns},
            "categories": list(c.categories),
            "bounds": tuple(c.bounds)}


def snap_key(s):
    return (tuple(s["annotators"]), tuple((a, tuple(s["units"][a])) for a in s["annotators"]),
            tuple(s["categories"]), s["bounds"])


def compare(c, m):
    """problems of the real object w.r.t. the model"""
    probs = []
    want_ann = sorted(m["ann"])
    try:
        s = snapshot(c)
    except Exception as e:  # noqa
        return [f"observing the continuum raised {type(e).__name__}: {e}"]
    if s["annotators"] != want_ann:
        probs.append(f"annotators {s['annotators']} but model has {want_ann} (alphabetical)")
        return probs
    total = 0
    flat = []
    for a in want_ann:
        want = sorted(m["ann"][a], key=unit_key)
        total += len(want)
        flat += [(a, u) for u in want]
        if s["units"][a] != want:
            probs.append(f"units of {a}: {s['units'][a]} but model predicts {want} (strict order start, end, label)")
        try:
            got = [from_unit(u) for u in c[a]]
            if got != want:
                probs.append(f"continuum[{a!r}] = {got} but model predicts {want}")
            for i, u in enumerate(want):
                if from_unit(c[a, i]) != u:
                    probs.append(f"continuum[{a!r}, {i}] = {from_unit(c[a, i])} but model predicts {u}")
            if [from_unit(u) for u in c.iterunits(a)] != want:
                probs.append(f"iterunits({a!r}) differs from the model")
        except Exception as e:  # noqa
            probs.append(f"indexing annotator {a} raised {type(e).__name__}: {e}")
    if [(a, from_unit(u)) for a, u in c] != flat:
        probs.append(f"iter(continuum) = {[(a, from_unit(u)) for a, u in c]} but model predicts {flat}")
    if c.num_units != total:
        probs.append(f"num_units = {c.num_units} but model has {total} units")
    if len(c) != len(want_ann) or c.num_annotators != len(want_ann):
        probs.append(f"len = {len(c)} / num_annotators = {c.num_annotators} but model has {len(want_ann)} annotators")
    if bool(c) != (total > 0):
        probs.append(f"bool(continuum) = {bool(c)} with {total} units")
    in_use = {u[2] for us in m["ann"].values() for u in us if u[2] is not None}
    cats = s["categories"]
    if cats != sorted(cats) or len(set(cats)) != len(cats):
        probs.append(f"categories {cats} are not a sorted set")
    if not in_use <= set(cats):
        probs.append(f"categories {cats} do not cover the labels in use {sorted(in_use)}")
    if not set(cats) <= set(m["ever"]):
        probs.append(f"categories {cats} contain labels never added {sorted(set(cats) - set(m['ever']))}")
    lo, hi = s["bounds"]
    for (us, ue) in m["enclose"]:
        if not (lo <= us and ue <= hi):
            probs.append(f"bounds {s['bounds']} do not enclose the unit [{us}, {ue}] that was added")
            break
    if m["exact"] not in (None, "unspecified") and (lo, hi) != tuple(m["exact"]):
        probs.append(f"bounds {s['bounds']} after reset_bounds but the units' extent is {m['exact']}")
    return probs


class Replayer:
    """Rebuilds the real object for a history; checks every step against the model."""

    def __init__(self):
        from ..load import load
        self.pa = load()
        from pyannote.core import Segment
        self.Segment = Segment
        self.last_other = None

    def build_other(self, which, history):
        if which == "fixed":
            return self.run(list(FIXED_OTHER), check=False)
        return self.run(history[:-1] if history else [], check=False)

    def apply(self, c, op, history_before):
        """apply op on real object c; returns (object to continue with, raised exception or None, extra problems,
        retained (object, model) pairs that must stay unchanged)"""
        k = op[0]
        extra = []
        keep = []
        try:
            if k == "add":
                c.add(op[1], self.Segment(op[2], op[3]), op[4])
            elif k == "add_annotator":
                c.add_annotator(op[1])
            elif k == "remove":
                c.remove(op[1], to_unit(op[2:5]))
            elif k == "reset_bounds":
                c.reset_bounds()
            elif k == "copy":
                new = c.copy()
                keep.append(c)
                c = new
            elif k in ("merge_in", "merge_out", "plus"):
                other, om = self.build_other(op[1], history_before)
                self.last_other = other
                before_other = snap_key(snapshot(other))
                if k == "merge_in":
                    r = c.merge(other, in_place=True)
                    if r is not None:
                        extra.append("in-place merge returned a value")
                    # in-place must agree with out-of-place, on everything observable
                    c2, _ = self.run(history_before, check=False)
                    other2, _ = self.build_other(op[1], history_before)
                    r2 = c2.merge(other2, in_place=False)
                    if snap_key(snapshot(r2)) != snap_key(snapshot(c)):
                        extra.append(f"in-place merge gives {snapshot(c)} but out-of-place gives {snapshot(r2)}")
                else:
                    new = c.merge(other, in_place=False) if k == "merge_out" else c + other
                    keep.append(c)
                    c = new
                if snap_key(snapshot(other)) != before_other:
                    extra.append("merge modified its argument")
            return c, None, extra, keep
        except Exception as e:  # noqa
            return c, e, extra, keep

    def run(self, history, check=True):
        """Replays history.  Returns (object, model) when check=False, else (object, model, problems, info):
        the last step is compared in full with the model."""
        c = self.pa.Continuum()
        m = new_model()
        problems = []
        for i, op in enumerate(history):
            other_model = None
            if op[0] in ("merge_in", "merge_out", "plus"):
                _, other_model = self.build_other(op[1], history[:i])
            nm, exp_exc = model_apply(m, op, other_model)
            last = check and i == len(history) - 1
            before = snap_key(snapshot(c)) if last else None
            c_before = c
            c, exc, extra, keep = self.apply(c, op, history[:i])
            if not last:
                if exc is None and nm is not None:
                    m = nm
                continue
            # ---- last step: full comparison
            problems += extra
            if exp_exc is not None:
                reversed_seg = op[0] == "add" and op[3] - op[2] < 0
                if exc is None:
                    if reversed_seg:
                        return c, m, problems, {"skip": True}
                    problems.append(f"{op} should be rejected with {exp_exc.__name__} but was accepted")
                elif not isinstance(exc, exp_exc):
                    problems.append(f"{op} raised {type(exc).__name__}: {exc} instead of {exp_exc.__name__}")
                if snap_key(snapshot(c_before)) != before:
                    problems.append(f"rejected operation {op} changed the continuum")
                elif not problems:
                    # a refusal the caller catches leaves EVERYTHING the model predicts as it was (counts, equality, ...)
                    problems += [f"after the rejected operation {op}: {p_}" for p_ in compare(c, m)]
                    try:
                        avg = float(c.avg_num_annotations_per_annotator) if len(m["ann"]) else None
                        want_avg = (sum(len(us) for us in m["ann"].values()) / len(m["ann"])) if len(m["ann"]) else None
                        if avg is not None and abs(avg - want_avg) > 1e-9:
                            problems.append(f"after the rejected operation {op}: average number of units per annotator "
                                            f"{avg} but the model has {want_avg}")
                    except Exception:  # noqa
                        pass
                return c, m, problems, {"rejected": True}
            if exc is not None:
                problems.append(f"{op} raised {type(exc).__name__}: {exc}")
                return c, m, problems, {"skip": True}
            for o in keep:
                if snap_key(snapshot(o)) != before:
                    problems.append(f"{op[0]} changed the continuum it was called on")
            m = nm
            problems += compare(c, m)
            if (keep or op[0] == "merge_in") and not problems:
                problems += self.independence(history)
        if check:
            return c, m, problems, {}
        return c, m

    def independence(self, history):
        """history ends with copy / merge_out / plus / merge_in: the result shares no mutable state with the
        continuum it was called on nor with the merged argument - mutating any one of them leaves the others
        unchanged (checked on separate replays, so the explored state is not disturbed)."""
        probs = []
        opname = history[-1][0]
        roles = ["result", "source"] + (["argument"] if opname in ("merge_in", "merge_out", "plus") else [])
        for mutated in roles:
            c, _ = self.run(history[:-1], check=False)
            self.last_other = None
            derived, exc, _, keep = self.apply(c, history[-1], history[:-1])
            if exc is not None:
                return probs
            objs = {"result": derived, "source": keep[0] if keep else None, "argument": self.last_other}
            if opname == "merge_in":
                objs["source"] = None  # the result IS the source
            elif mutated == "result":
                for k in ("source", "argument"):
                    if objs.get(k) is not None and objs[k] is derived:
                        probs.append(f"{opname} returned its {k} itself instead of a new continuum (changing one changes both)")
                if probs:
                    return probs
            target = objs.get(mutated)
            if target is None:
                continue
            witnesses = {k: o for k, o in objs.items() if k != mutated and o is not None and o is not target}
            before = {k: snap_key(snapshot(o)) for k, o in witnesses.items()}
            try:
                target.add("a", self.Segment(7, 9), "fresh")
                target.add_annotator("zz")
                for a in list(target.annotators):
                    us = list(target.iter_annotator(a))
                    if us:
                        target.remove(a, us[0])
                    target.add(a, self.Segment(11, 12), "fresh2")
                target.reset_bounds()
            except Exception as e:  # noqa
                probs.append(f"mutating the {mutated} of {opname} raised {type(e).__name__}: {e}")
            for k, o in witnesses.items():
                if snap_key(snapshot(o)) != before[k]:
                    probs.append(f"mutating the {mutated} of {opname} changed its {k}")
        return probs


def explore(rep, start_histories, depth, res, seen):
    """BFS from the given histories, `depth` more steps."""
    frontier = list(start_histories)
    for d in range(depth):
        nxt = []
        for hist in frontier:
            _, m = rep.run(hist, check=False)
            for op in alphabet(m):
                h2 = hist + [op]
                c, m2, problems, info = rep.run(h2, check=True)
                res["transitions"] += 1
                res["evaluations"] += 1
                res["traces"] += 1
                if problems:
                    res["violations"].append({"msg": problems[0], "case": {"history": h2},
                                              "sig": h([problems[0][:60], h2[-1][0], len(h2)])})
                    continue
                if info.get("skip") or info.get("rejected"):
                    continue
                key = h([model_key(m2), snap_key(snapshot(c))])
                if key in seen:
                    continue
                seen.add(key)
                res["state_set"].append(key)
                total = sum(len(us) for us in m2["ann"].values())
                if total >= 2 or op[0] in ("remove", "merge_in", "merge_out", "plus", "copy", "reset_bounds"):
                    res["nontrivial"].append(key)
                res["outcomes"].append(h(model_key(m2)[0]))
                if len(res["samples"]) < 2 and len(h2) >= 3 and op[0] in ("merge_in", "remove", "plus"):
                    res["samples"].append({"history": h2, "model_units": model_key(m2)[0]})
                nxt.append(h2)
        frontier = nxt
    return frontier


def shards(tier, seed):
    """Parent explores depth 2 serially (dedup), workers continue from each depth-2 state."""
    rep = Replayer()
    res = {"transitions": 0, "evaluations": 0, "traces": 0, "violations": [], "state_set": [], "nontrivial": [],
           "outcomes": [], "samples": []}
    seen = set()
    front = explore(rep, [[]], 2, res, seen)
    more = 2 if tier == "quick" else 3
    tasks = [{"start": front[i::48], "depth": more} for i in range(48)]
    tasks = [t for t in tasks if t["start"]]
    tasks.append({"prefix_result": {k: v for k, v in res.items()}, "start": [], "depth": 0})
    tasks.append({"equality": True, "start": [], "depth": 0})
    return tasks


def run(task):
    res = {"evaluations": 0, "transitions": 0, "traces": 0, "state_set": [], "nontrivial": [], "outcomes": [],
           "samples": [], "violations": [], "unspecified": 0, "extra": {}}
    if "prefix_result" in task:
        pr = task["prefix_result"]
        for k in ("evaluations", "transitions", "traces"):
            res[k] = pr[k]
        for k in ("state_set", "nontrivial", "outcomes", "samples", "violations"):
            res[k] = list(pr[k])
        return res
    rep = Replayer()
    if task.get("equality"):
        return run_equality(rep, res)
    seen = set()
    explore(rep, [list(map(tuple, hh)) for hh in task["start"]], task["depth"], res, seen)
    res["extra"]["max_depth"] = 2 + task["depth"]
    return res


def run_equality(rep, res):
    """== over all pairs of the first 300 distinct states: agrees with model equality (annotators, units)."""
    tmp = {"transitions": 0, "evaluations": 0, "traces": 0, "violations": [], "state_set": [], "nontrivial": [],
           "outcomes": [], "samples": []}
    seen = set()
    front = [[]] + explore(rep, [[]], 1, tmp, seen)
    front += explore(rep, front[1:40], 1, tmp, seen)
    states = []
    keys = set()
    for hist in front:
        c, m = rep.run(hist, check=False)
        k = h(model_key(m)[0])
        states.append((hist, c, m))
        if len(states) >= 300:
            break
    for (h1, c1, m1), (h2, c2, m2) in itertools.product(states, states):
        want = model_key(m1)[0] == model_key(m2)[0]
        res["evaluations"] += 1
        res["transitions"] += 1
        res["traces"] += 1
        try:
            got = (c1 == c2)
            ne = (c1 != c2)
        except Exception as e:  # noqa
            res["violations"].append({"msg": f"== raised {type(e).__name__}: {e}", "case": {"eq": [h1, h2]}})
            continue
        if got != want or ne == got:
            res["violations"].append({"msg": f"continuum equality is {got} (!= gives {ne}) but the models "
                                             f"{'are' if want else 'are not'} equal", "case": {"eq": [h1, h2]},
                                      "sig": h(["eq", want, got, h1[-1:], h2[-1:]])})
        elif want and h1 != h2:
            res["nontrivial"].append(h(["eq", h1, h2]))
    res["state_set"] = [h(["eqstate", s[0]]) for s in states]
    res["extra"]["equality_pairs"] = len(states) ** 2
    c = states[1][1] if len(states) > 1 else states[0][1]
    if (c == 3) is not False or (c == "x") is not False:
        res["violations"].append({"msg": "continuum compares equal to a non-continuum", "case": {"eq": [[], []]}})
    return res


def replay(case):
    rep = Replayer()
    if "eq" in case:
        h1, h2 = [list(map(tuple, x)) for x in case["eq"]]
        c1, m1 = rep.run(h1, check=False)
        c2, m2 = rep.run(h2, check=False)
        want = model_key(m1)[0] == model_key(m2)[0]
        got = (c1 == c2)
        if got != want or (c1 != c2) == got:
            return [{"msg": f"continuum equality is {got} but models {'are' if want else 'are not'} equal", "case": case}]
        return []
    hist = [tuple(op) for op in case["history"]]
    c, m, problems, info = rep.run(hist, check=True)
    return [{"msg": p, "case": case} for p in problems[:1]]
