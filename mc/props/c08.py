"""C08 - alignment results do not depend on the MIP back-end.

Three solver configurations {cylp importable; `import cylp` fails; cylp importable but
Problem.solve(solver=CBC) raises SolverError (injected)} x {best, soft} x continua x
dissimilarities.  A spy on cvxpy.Problem.solve confirms which solver really ran.  Oracle:
partition / cover validator and the exact DP optimum, hence agreement across back-ends.
"""
from . import _align as A
from ..oracles import optimum, close, check_partition
from ..runner import h
from ..spec import spec_by_annotator

ID = "C08"
META = {
    "rule": "case = (continuum, recipe, kind best|soft, solver configuration); non-trivial = distinct (continuum, "
            "recipe, kind) for which all three configurations ran the expected solver (CBC; GLPK_MI; CBC then "
            "GLPK_MI) and the optimum is below the all-singletons value; outcomes = distinct optimum values",
    "assumptions": ["configuration 2 = sys.modules['cylp'] = None; configuration 3 = SolverError injected into "
                    "cvxpy.Problem.solve for solver=CBC", "agreement within 1e-4 relative with the DP oracle"],
    "explanation": "configuration enumeration x bounded input universe; solver identity observed by a spy",
}


FAULT_INPUTS = [
    {"annotators": [["a", [[0, 3, "x"], [5, 8, "y"]]], ["b", [[1, 3, "x"], [5, 9, "x"]]]]},
    {"annotators": [["a", [[0, 2, "x"], [2, 4, "y"]]], ["b", [[1, 3, "y"]]], ["c", [[0, 4, "x"], [5, 6, "x"]]]]},
]


def shards(tier, seed):
    tasks = A.make_shards(tier, "backend", extra={"full": False})
    for i in range(len(FAULT_INPUTS)):
        for mode in ("exact", "soft", "fast"):
            tasks.append({"faults": {"input": i, "mode": mode, "max_faults": 1 if tier == "quick" else 2}})
    return tasks


def gamma_under_faults(spec, mode, fail_at):
    """compute_gamma (serial pool, fixed NumPy seed) with SolverError injected at the given CBC calls"""
    import numpy as np
    from ..serial import serial_pool
    from ..spec import build_continuum
    A.set_backend("cbc")
    A.set_fault_plan(fail_at)
    c = build_continuum(spec)
    d = A.DISSIMS.get({"k": "comb", "a": 1.0, "b": 1.0, "de": 1.0})
    np.random.seed(21)
    kw = {"fast": True} if mode == "fast" else ({"soft": True} if mode == "soft" else {})
    try:
        with serial_pool():
            r = c.compute_gamma(d, n_samples=3, **kw)
        out = {"observed": float(r.observed_disorder), "chance": [float(al.disorder) for al in r.chance_alignments],
               "gamma": float(r.gamma), "calls": A.cbc_calls_seen()}
    except Exception as e:  # noqa
        out = {"exc": f"{type(e).__name__}: {e}", "calls": A.cbc_calls_seen()}
    finally:
        A.set_fault_plan(())
    return out


def run_faults(f, res):
    """Fault enumeration: every placement of <= max_faults CBC failures among the solver calls of one gamma
    computation; the fallback must give the same disorders (hence the same gamma) as the fault-free run."""
    import itertools
    spec = FAULT_INPUTS[f["input"]]
    base = gamma_under_faults(spec, f["mode"], ())
    n_calls = base["calls"]
    plans = [()]
    for k in range(1, f["max_faults"] + 1):
        plans += list(itertools.combinations(range(1, n_calls + 1), k))
    for plan in plans:
        got = gamma_under_faults(spec, f["mode"], plan)
        res["evaluations"] += 1
        res["transitions"] += n_calls
        res["traces"] += 1
        key = h(["faults", f, plan])
        res["state_set"].append(key)
        ok = "exc" not in got and "exc" not in base and close(got["observed"], base["observed"]) and \
            len(got["chance"]) == len(base["chance"]) and all(close(x, y) for x, y in zip(got["chance"], base["chance"])) \
            and close(got["gamma"], base["gamma"], 1e-3)
        if not ok:
            res["violations"].append({"msg": f"CBC failing at solver call(s) {list(plan)} of a {f['mode']} gamma computation: "
                                             f"{got} but the fault-free run gives {base}",
                                      "case": {"faults": f, "plan": list(plan)}})
        elif plan:
            res["nontrivial"].append(key)
    res["extra"]["fault_plans"] = res["extra"].get("fault_plans", 0) + len(plans)
    return res


def recipes(labels):
    D = A.menu(labels, False)
    return [r for r in D if not (r["k"] == "comb" and r.get("de") == 1.0 and r.get("cat") is None and r.get("b") == 1.0)]


def judge(spec, recipe, kind, backend, obs, opt):
    if not obs["ok"]:
        return f"{kind} alignment failed under solver configuration {backend}: {obs['exc']}"
    # the result is judged whatever solver the library ended up calling (which ones were called is only used to
    # establish that the fall-back path really ran: counted, see finalize())
    probs = check_partition(obs["nts"], spec_by_annotator(spec), cover=(kind == "soft"))
    if probs:
        return f"{kind} alignment under {backend} is not a {'cover' if kind == 'soft' else 'partition'}: " + \
               "; ".join(probs[:3])
    if not close(obs["disorder"], opt):
        return f"{kind} alignment under {backend} has disorder {obs['disorder']!r}, exact optimum {opt!r}"
    return None


def run(task):
    res = {"evaluations": 0, "transitions": 0, "traces": 0, "state_set": [], "nontrivial": [], "outcomes": [],
           "samples": [], "violations": [], "extra": {"solver_CBC": 0, "solver_GLPK_MI": 0, "fault_plans": 0}}
    if "faults" in task:
        return run_faults(task["faults"], res)
    for spec in A.iter_task_specs(task):
        labels = A.spec_label_set(spec)
        n = len(spec["annotators"])
        for recipe in recipes(labels):
            for kind in ("best", "soft"):
                opt = optimum(spec, recipe, cover=(kind == "soft"))
                key = h([spec, recipe, kind])
                res["state_set"].append(key)
                res["outcomes"].append(round(opt, 5))
                good = True
                vals = {}
                for backend in A.BACKENDS:
                    if backend != "glpk_noimport" and not A.cbc_available():
                        continue
                    obs = A.eval_case(spec, recipe, backend, kind)
                    res["evaluations"] += 1
                    res["transitions"] += 1
                    res["traces"] += 1
                    for s in obs.get("solvers", []):
                        res["extra"]["solver_" + str(s)] = res["extra"].get("solver_" + str(s), 0) + 1
                    msg = judge(spec, recipe, kind, backend, obs, opt)
                    if obs["ok"] and (obs["solvers"][:1] != A.expected_solver(backend)[:1] or
                                      len(obs["solvers"]) != len(A.expected_solver(backend))):
                        # the first solver tried and the number of attempts tell whether CBC / the fall-back ran
                        res["extra"]["solver_config_mismatch"] = res["extra"].get("solver_config_mismatch", 0) + 1
                        good = False
                    if msg:
                        good = False
                        res["violations"].append({"msg": msg, "case": A.case_dict(spec, recipe, backend, kind)})
                    else:
                        vals[backend] = obs["disorder"]
                if good and opt < n * recipe.get("de", 1.0) * (1 - 1e-6):
                    res["nontrivial"].append(key)
                if len(res["samples"]) < 2 and good and len(vals) == 3 and opt < n * recipe.get("de", 1.0) * 0.9:
                    res["samples"].append({"continuum": spec, "dissimilarity": recipe, "kind": kind,
                                           "disorder_per_configuration": vals, "exact_optimum": opt})
    return res


def finalize(cov):
    """harness errors (exit 2) when the run was vacuous w.r.t. the configurations"""
    if cov.get("solver_config_mismatch", 0) > 0.5 * max(1, cov["evaluations"]):
        return ["solver configurations were not exercised as intended (spy saw other solvers)"]
    return []


def replay(case):
    if "faults" in case:
        f = case["faults"]
        spec = FAULT_INPUTS[f["input"]]
        base = gamma_under_faults(spec, f["mode"], ())
        got = gamma_under_faults(spec, f["mode"], tuple(case["plan"]))
        ok = "exc" not in got and close(got["observed"], base["observed"]) and len(got["chance"]) == len(base["chance"]) \
            and all(close(x, y) for x, y in zip(got["chance"], base["chance"]))
        return [] if ok else [{"msg": f"faults at {case['plan']}: {got} vs fault-free {base}", "case": case}]
    kind = case["kind"]
    opt = optimum(case["spec"], case["recipe"], cover=(kind == "soft"))
    obs = A.eval_case(case["spec"], case["recipe"], case["backend"], kind)
    msg = judge(case["spec"], case["recipe"], kind, case["backend"], obs, opt)
    return [{"msg": msg, "case": case}] if msg else []
