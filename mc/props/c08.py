"""C08 - alignment results do not depend on the MIP back-end.

Three solver configurations {cylp importable; `import cylp` fails; cylp importable but
Problem.solve(solver=CBC) raises SolverError (injected)} x {best, soft} x continua x
dissimilarities.  A spy on cvxpy.Problem.solve confirms which solver really ran.  Oracle:
partition / cover validator and the exact DP optimum, hence agreement across back-ends.
"""
from . import _align as A
from ..oracles import optimum, close, check_partition
from ..runner import h
from ..spec import spec_by_annotator

ID = "C08"
META = {
    "rule": "case = (continuum, recipe, kind best|soft, solver configuration); non-trivial = distinct (continuum, "
            "recipe, kind) for which all three configurations ran the expected solver (CBC; GLPK_MI; CBC then "
            "GLPK_MI) and the optimum is below the all-singletons value; outcomes = distinct optimum values",
    "assumptions": ["configuration 2 = sys.modules['cylp'] = None; configuration 3 = SolverError injected into "
                    "cvxpy.Problem.solve for solver=CBC", "agreement within 1e-4 relative with the DP oracle"],
    "explanation": "configuration enumeration x bounded input universe; solver identity observed by a spy",
}


def shards(tier, seed):
    return A.make_shards(tier, "backend", extra={"full": False})


def recipes(labels):
    D = A.menu(labels, False)
    return [r for r in D if not (r["k"] == "comb" and r.get("de") == 1.0 and r.get("cat") is None)]


def judge(spec, recipe, kind, backend, obs, opt):
    if not obs["ok"]:
        return f"{kind} alignment failed under solver configuration {backend}: {obs['exc']}"
    exp = A.expected_solver(backend)
    if obs["solvers"] != exp:
        return None  # configuration not exercised as intended: counted, see finalize()
    probs = check_partition(obs["nts"], spec_by_annotator(spec), cover=(kind == "soft"))
    if probs:
        return f"{kind} alignment under {backend} is not a {'cover' if kind == 'soft' else 'partition'}: " + \
               "; ".join(probs[:3])
    if not close(obs["disorder"], opt):
        return f"{kind} alignment under {backend} has disorder {obs['disorder']!r}, exact optimum {opt!r}"
    return None


def run(task):
    res = {"evaluations": 0, "transitions": 0, "traces": 0, "state_set": [], "nontrivial": [], "outcomes": [],
           "samples": [], "violations": [], "extra": {"solver_CBC": 0, "solver_GLPK_MI": 0}}
    for spec in A.iter_task_specs(task):
        labels = A.spec_label_set(spec)
        n = len(spec["annotators"])
        for recipe in recipes(labels):
            for kind in ("best", "soft"):
                opt = optimum(spec, recipe, cover=(kind == "soft"))
                key = h([spec, recipe, kind])
                res["state_set"].append(key)
                res["outcomes"].append(round(opt, 5))
                good = True
                vals = {}
                for backend in A.BACKENDS:
                    if backend != "glpk_noimport" and not A.cbc_available():
                        continue
                    obs = A.eval_case(spec, recipe, backend, kind)
                    res["evaluations"] += 1
                    res["transitions"] += 1
                    res["traces"] += 1
                    for s in obs.get("solvers", []):
                        res["extra"]["solver_" + str(s)] = res["extra"].get("solver_" + str(s), 0) + 1
                    msg = judge(spec, recipe, kind, backend, obs, opt)
                    if obs["ok"] and obs["solvers"] != A.expected_solver(backend):
                        res["extra"]["solver_config_mismatch"] = res["extra"].get("solver_config_mismatch", 0) + 1
                        good = False
                    if msg:
                        good = False
                        res["violations"].append({"msg": msg, "case": A.case_dict(spec, recipe, backend, kind)})
                    else:
                        vals[backend] = obs["disorder"]
                if good and opt < n * recipe.get("de", 1.0) * (1 - 1e-6):
                    res["nontrivial"].append(key)
                if len(res["samples"]) < 2 and good and len(vals) == 3 and opt < n * recipe.get("de", 1.0) * 0.9:
                    res["samples"].append({"continuum": spec, "dissimilarity": recipe, "kind": kind,
                                           "disorder_per_configuration": vals, "exact_optimum": opt})
    return res


def finalize(cov):
    """harness errors (exit 2) when the run was vacuous w.r.t. the configurations"""
    if cov.get("solver_config_mismatch", 0) > 0.5 * max(1, cov["evaluations"]):
        return ["solver configurations were not exercised as intended (spy saw other solvers)"]
    return []


def replay(case):
    kind = case["kind"]
    opt = optimum(case["spec"], case["recipe"], cover=(kind == "soft"))
    obs = A.eval_case(case["spec"], case["recipe"], case["backend"], kind)
    msg = judge(case["spec"], case["recipe"], kind, case["backend"], obs, opt)
    return [{"msg": msg, "case": case}] if msg else []
