"""C07 - candidate unitary alignments are exactly those under the n*delta_empty cut.

(a) every continuum of the bounded universes x dissimilarities: valid_alignments() must return, as
    a set without repetition, exactly the oracle's combinations with their disorders, never the
    all-empty one;
(b) buffer growth: 'all mutually close' block families whose candidate count crosses every growth
    boundary of the result buffers (10 000, 15 000, 22 500, 33 750), with and without interleaved
    rejected combinations.
Oracle: float64 NumPy enumeration of all combinations (own mixed-radix order).  Membership of a
combination whose disorder is within 1e-5 of the cut is asserted only when it sits on the cut
exactly in rational arithmetic and every term is exactly representable in float32.
"""
import itertools
from fractions import Fraction

import numpy as np

from . import _align as A
from ..oracles import pair_fn
from ..runner import h
from ..spec import spec_by_annotator, build_continuum
from ..universe import fam_block, fam_sparse

ID = "C07"
TASK_TIMEOUT = 900.0
META = {
    "rule": "case = (continuum, dissimilarity); non-trivial = distinct cases where the cut both keeps and rejects "
            "at least one combination with >= 2 real units, or whose candidate count crosses a buffer boundary; "
            "outcomes = distinct candidate counts",
    "assumptions": ["membership asserted outside a 1e-5 relative band around the cut, and on the cut itself only "
                    "for combinations whose terms are exact in float32", "disorders compared within 1e-4 relative"],
    "explanation": "explicit enumeration of bounded input universes and of parameterised block families around "
                   "each buffer-growth boundary; every returned candidate table compared with a float64 oracle",
}
BOUNDARIES = (10000, 15000, 22500, 33750)


def pair_exact(recipe):
    """Fraction-valued pair function for recipes with rational formulas, else None."""
    k = recipe["k"]
    de = Fraction(recipe.get("de", 1.0))

    def pos(u, v):
        x = (abs(Fraction(u[0]) - Fraction(v[0])) + abs(Fraction(u[1]) - Fraction(v[1]))) / \
            ((Fraction(u[1]) - Fraction(u[0])) + (Fraction(v[1]) - Fraction(v[0])))
        return x * x

    if k == "pos":
        return (lambda u, v: pos(u, v) * de), de
    if k == "abs":
        return (lambda u, v: (Fraction(0) if u[2] == v[2] else Fraction(1)) * de), de
    if k == "comb" and (recipe.get("cat") is None or recipe["cat"]["k"] in ("abs", "ord")):
        a, b = Fraction(recipe.get("a", 1.0)), Fraction(recipe.get("b", 1.0))
        pde = de if recipe.get("pos") is None else Fraction(recipe["pos"].get("de", 1.0))
        cat = recipe.get("cat")
        if cat is None or cat["k"] == "abs":
            cf = lambda u, v: Fraction(0) if u[2] == v[2] else Fraction(1)  # noqa
        else:
            if cat.get("p") is not None:
                return None
            labs = list(cat["labels"])
            m = max(1, len(labs) - 1)
            cf = lambda u, v: Fraction(abs(labs.index(u[2]) - labs.index(v[2])), m)  # noqa
        return (lambda u, v: a * pos(u, v) * pde + b * cf(u, v) * de), de
    return None


def f32_exact(fr):
    try:
        return Fraction(float(np.float32(float(fr)))) == fr
    except OverflowError:
        return False


def oracle_table(byann, recipe):
    """float64 array of mean disorders over the full index grid (null = last index of each axis)."""
    d, de = pair_fn(recipe)
    n = len(byann)
    sizes = [len(us) + 1 for _, us in byann]
    total = np.zeros(sizes, dtype=np.float64)
    for a in range(n):
        for b in range(a):
            M = np.full((sizes[a], sizes[b]), de, dtype=np.float64)
            for i, u in enumerate(byann[a][1]):
                for j, v in enumerate(byann[b][1]):
                    M[i, j] = d(u, v)
            shape = [1] * n
            shape[a] = sizes[a]
            shape[b] = sizes[b]
            # axis order of M is (a, b) with a > b: transpose so that it broadcasts on the grid
            total = total + (M.T.reshape(shape) if b < a else M.reshape(shape))
    c2n = n * (n - 1) // 2
    return total / c2n, de


def compare(spec, recipe, lib_dis, lib_idx):
    """problems, info"""
    byann = spec_by_annotator(spec)
    n = len(byann)
    sizes = [len(us) + 1 for _, us in byann]
    table, de = oracle_table(byann, recipe)
    cut = n * de
    probs = []
    lib_idx = np.asarray(lib_idx)
    lib_dis = np.asarray(lib_dis, dtype=np.float64)
    if lib_idx.ndim != 2 or lib_idx.shape[1] != n or len(lib_dis) != len(lib_idx):
        return [f"malformed result: disorders {lib_dis.shape}, index tuples {lib_idx.shape}"], {}
    if len(lib_idx) and ((lib_idx < 0).any() or (lib_idx >= np.array(sizes)).any()):
        return ["index tuple out of range"], {}
    got = np.zeros(sizes, dtype=np.int32)
    gotval = np.full(sizes, np.nan)
    if len(lib_idx):
        np.add.at(got, tuple(lib_idx.T), 1)
        gotval[tuple(lib_idx.T)] = lib_dis
    null = tuple(s - 1 for s in sizes)
    if got[null] > 0:
        probs.append("the all-empty combination is among the candidates")
    if (got > 1).any():
        t = tuple(int(x) for x in np.argwhere(got > 1)[0])
        probs.append(f"combination {t} returned {int(got[t])} times")
    near = np.abs(table - cut) <= 1e-5 * cut
    must = (table <= cut) & ~near
    mustnot = (table > cut) & ~near
    must[null] = False
    mustnot[null] = False
    unspecified = 0
    if near.any():
        ex = pair_exact(recipe)
        for t in map(tuple, np.argwhere(near)):
            if t == null:
                continue
            decided = False
            if ex is not None:
                dx, dex = ex
                slots = [None if i == sizes[a] - 1 else byann[a][1][i] for a, i in enumerate(t)]
                terms = [dex if (slots[i] is None or slots[j] is None) else dx(slots[i], slots[j])
                         for i in range(n) for j in range(i)]
                tot = sum(terms)
                cutx = Fraction(n * (n - 1) // 2) * dex * n
                if all(f32_exact(x) for x in terms) and f32_exact(tot) and f32_exact(cutx) and f32_exact(dex):
                    decided = True
                    if tot <= cutx:
                        must[t] = True
                    else:
                        mustnot[t] = True
            if not decided:
                unspecified += 1
    miss = must & (got == 0)
    if miss.any():
        t = tuple(int(x) for x in np.argwhere(miss)[0])
        probs.append(f"{int(miss.sum())} combination(s) under the cut are missing, e.g. {t} with disorder "
                     f"{table[t]:.6g} <= {cut}")
    extra = mustnot & (got > 0)
    if extra.any():
        t = tuple(int(x) for x in np.argwhere(extra)[0])
        probs.append(f"{int(extra.sum())} combination(s) above the cut are present, e.g. {t} with disorder "
                     f"{table[t]:.6g} > {cut}")
    have = got > 0
    bad = have & ~(np.abs(gotval - table) <= 1e-4 * np.maximum(min(1.0, cut), np.abs(table)))
    bad[null] = False
    if bad.any():
        t = tuple(int(x) for x in np.argwhere(bad)[0])
        probs.append(f"{int(bad.sum())} candidate(s) carry a wrong disorder, e.g. {t}: {gotval[t]!r} vs {table[t]!r}")
    real = np.zeros(sizes, dtype=np.int32)
    for a in range(n):
        shape = [1] * n
        shape[a] = sizes[a]
        real = real + (np.arange(sizes[a]) < sizes[a] - 1).astype(np.int32).reshape(shape)
    multi = real >= 2
    info = {"count": int(must.sum()), "rejected_multi": int((mustnot & multi).sum()),
            "kept_multi": int((must & multi).sum()), "unspecified": unspecified}
    return probs, info


def block_spec(block):
    if block.get("sparse"):
        return fam_sparse(block["sizes"])
    return fam_block(block["sizes"], far=block["far"])


# cumulative pair-table sizes beyond 2**15 / 2**16 cells with three or more annotators (a 2-annotator continuum has a
# single table): (k0+1)(k1+1) cells before the second pair's table starts
SPARSE = {"quick": [[200, 200, 1], [181, 181, 2], [2, 190, 190]],
          "thorough": [[200, 200, 1], [181, 181, 2], [2, 190, 190], [260, 260, 1], [300, 120, 3], [1, 255, 256], [128, 128, 128],
                       [40, 40, 40, 2]]}


def eval_valid(spec, recipe, warm=None):
    from ..pool import deadline, CaseTimeout
    try:
        with deadline(120.0):
            c = build_continuum(spec) if warm is None else A.warm_continuum(spec, warm, "best")
            d = A.DISSIMS.get(recipe)
            dis, idx = d.valid_alignments(c)
            # the very objects the library returned (np.asarray does not copy): held across the next call
            return {"ok": True, "dis": np.asarray(dis), "idx": np.asarray(idx)}
    except CaseTimeout as e:
        return {"ok": False, "exc": f"TIMEOUT {e}"}
    except Exception as e:  # noqa
        return {"ok": False, "exc": f"{type(e).__name__}: {e}"}


def block_cases(tier):
    """(sizes, far) whose candidate count (prod(k+1), incl. the all-empty one) falls around a boundary."""
    out = []
    width = 6 if tier == "quick" else 12
    seen = set()
    for B in BOUNDARIES[: 3 if tier == "quick" else 4]:
        for total in range(B - width, B + width + 1):
            # n = 2 factorizations p1*q1 = total (+ the counts just beside), smallest factor >= 2
            for p1 in range(2, int(total ** 0.5) + 1):
                if total % p1 == 0:
                    q1 = total // p1
                    key = (p1 - 1, q1 - 1)
                    if key not in seen and q1 - 1 <= 6000:
                        seen.add(key)
                        out.append((list(key), None))
            # n = 3
            for p1 in range(2, 30):
                if total % p1:
                    continue
                r = total // p1
                for q1 in range(p1, int(r ** 0.5) + 1):
                    if r % q1 == 0:
                        key = (p1 - 1, q1 - 1, r // q1 - 1)
                        if key not in seen and key[2] <= 400:
                            seen.add(key)
                            out.append((list(key), None))
    # with far-away units: rejected combinations interleaved with accepted ones
    for sizes, far in [([99, 99], [1, 1]), ([99, 100], [2, 0]), ([120, 124], [1, 2]), ([20, 21, 21], [1, 0, 1]),
                       ([149, 149], [1, 1]), ([24, 24, 35], [0, 1, 1]), ([172, 173], [2, 2])]:
        out.append((sizes, far))
    if tier == "thorough":
        out += [([199, 199], [1, 1]), ([33, 33, 33], [1, 1, 1]), ([12, 12, 12, 12], None), ([9, 9, 9, 9, 3], None)]
    else:
        out += [([9, 9, 9, 12], None)]
    # reduce quick: keep every n=2 case with small max size and a spread of others
    if tier == "quick":
        keep = []
        for sizes, far in out:
            if far is not None or max(sizes) <= 1300:
                keep.append((sizes, far))
        out = keep
    return out


def shards(tier, seed):
    tasks = A.make_shards(tier, "struct", extra={"full": tier == "thorough"})
    blocks = block_cases(tier)
    per = 4
    for i in range(0, len(blocks), per):
        tasks.append({"blocks": blocks[i:i + per]})
    for sizes in SPARSE[tier]:
        tasks.append({"sparse": [sizes]})
    return tasks


# delta_empty far from 1: everything the cut is compared with scales with it (an absolute slack does not)
TINY = [{"k": "pos", "de": 1e-5}, {"k": "comb", "a": 1.0, "b": 1.0, "de": 1e-6}, {"k": "pos", "de": 1e6}]


def recipes_for(labels, full):
    D = A.menu(labels, full)
    return D + (TINY if full else TINY[:2])


def run(task):
    res = {"evaluations": 0, "transitions": 0, "traces": 0, "state_set": [], "nontrivial": [], "outcomes": [],
           "samples": [], "violations": [], "unspecified": 0,
           "extra": {"buffer_growth_cases": 0, "max_candidates": 0}}

    held = {}

    def one(spec, recipe, block=None):
        key = h([spec, recipe])
        res["state_set"].append(key)
        obs = eval_valid(spec, recipe)
        # the tables returned by EARLIER calls must still be what they were when they were returned
        if held.get("obs") is not None:
            po, pc = held["obs"], held["copies"]
            if not (np.array_equal(po["dis"], pc[0]) and np.array_equal(po["idx"], pc[1])):
                res["violations"].append({"msg": "the candidate table returned for one continuum changed when "
                                                 "valid_alignments was called for the next one",
                                          "case": {"sequence": [held["case"], {"spec": spec if block is None else None,
                                                                               "block": block, "recipe": recipe}]},
                                          "sig": h(["overwritten", len(res["violations"]) // 4])})
        if obs["ok"]:
            held.update(obs=obs, copies=(obs["dis"].copy(), obs["idx"].copy()),
                        case={"spec": spec if block is None else None, "block": block, "recipe": recipe})
        res["evaluations"] += 1
        res["transitions"] += 1
        res["traces"] += 1
        case = {"spec": spec if block is None else None, "block": block, "recipe": recipe}
        if not obs["ok"]:
            res["violations"].append({"msg": f"valid_alignments did not return: {obs['exc']}", "case": case})
            return
        probs, info = compare(spec, recipe, obs["dis"], obs["idx"])
        if probs:
            res["violations"].append({"msg": "; ".join(probs[:3]), "case": case})
            return
        k = len(res["state_set"])
        if block is None and k % 4 == 0 and len(spec["annotators"]) >= 2:
            # non-initial state: a neighbouring continuum was aligned before, then turned into this one by a mutator
            wrec = recipe if (k // 16) % 2 == 0 else {"k": "pos", "de": 0.35}
            warm = {"recipe": wrec, "how": A.WARM_KINDS[(k // 4) % len(A.WARM_KINDS)]}
            obs2 = eval_valid(spec, recipe, warm=warm)
            res["evaluations"] += 1
            res["transitions"] += 2
            res["traces"] += 1
            if not obs2["ok"]:
                res["violations"].append({"msg": f"valid_alignments did not return after {warm['how']}(): {obs2['exc']}",
                                          "case": dict(case, warm=warm)})
                return
            probs2, _ = compare(spec, recipe, obs2["dis"], obs2["idx"])
            if probs2:
                res["violations"].append({"msg": "; ".join(probs2[:2]) + f" [continuum reached by {warm['how']}() after "
                                                 f"an earlier alignment]", "case": dict(case, warm=warm)})
                return
        res["unspecified"] += info["unspecified"]
        res["outcomes"].append(info["count"])
        res["extra"]["max_candidates"] = max(res["extra"]["max_candidates"], info["count"])
        grown = info["count"] + 1 >= BOUNDARIES[0]
        if grown:
            res["extra"]["buffer_growth_cases"] += 1
        if (info["rejected_multi"] and info["kept_multi"]) or grown:
            res["nontrivial"].append(key)
        if len(res["samples"]) < 2 and (grown or (info["rejected_multi"] and info["kept_multi"] >= 2)):
            res["samples"].append({"continuum": spec if block is None else {"block": block},
                                   "dissimilarity": recipe, "candidates": info["count"],
                                   "rejected_with_2+_real_units": info["rejected_multi"]})

    for spec in A.iter_task_specs(task):
        labels = A.spec_label_set(spec)
        for recipe in recipes_for(labels, task.get("full", False)):
            one(spec, recipe)
    for sizes, far in task.get("blocks", []):
        spec = fam_block(sizes, far=far)
        for recipe in ({"k": "pos", "de": 1.0}, {"k": "comb", "a": 1.0, "b": 1.0, "de": 0.5}):
            one(spec, recipe, block={"sizes": sizes, "far": far})
    for sizes in task.get("sparse", []):
        blk = {"sizes": sizes, "far": None, "sparse": True}
        for recipe in ({"k": "pos", "de": 1.0}, {"k": "comb", "a": 1.0, "b": 1.0, "de": 0.5}):
            one(block_spec(blk), recipe, block=blk)
    # max is not additive: report through a set-like list
    res["extra"] = {"buffer_growth_cases": res["extra"]["buffer_growth_cases"]}
    return res


def replay(case):
    if "sequence" in case:
        first, second = case["sequence"]
        sp = [c["spec"] if c.get("spec") else block_spec(c["block"]) for c in (first, second)]
        o1 = eval_valid(sp[0], first["recipe"])
        copies = (o1["dis"].copy(), o1["idx"].copy())
        eval_valid(sp[1], second["recipe"])
        if not (np.array_equal(o1["dis"], copies[0]) and np.array_equal(o1["idx"], copies[1])):
            return [{"msg": "candidate table of the first continuum changed after the second call", "case": case}]
        return []
    spec = case["spec"] if case.get("spec") else block_spec(case["block"])
    obs = eval_valid(spec, case["recipe"], warm=case.get("warm"))
    if not obs["ok"]:
        return [{"msg": f"valid_alignments did not return: {obs['exc']}", "case": case}]
    probs, info = compare(spec, case["recipe"], obs["dis"], obs["idx"])
    return [{"msg": "; ".join(probs[:3]), "case": case}] if probs else []
