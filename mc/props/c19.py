"""C19 - corpus shuffling yields valid corpora and each perturbation is confined.

E1 over RNG answers of the real CorpusShufflingTool: each perturbation alone (full product of
answers where finite, deviation-bounded otherwise), every pair of flags (<= 2 deviations), all 32
flag combinations x include_ref (<= 1 deviation), x magnitudes {0, 0.3, 0.7, 1}.
Oracle: only what the statement says - annotators exactly as requested (+ reference), none empty,
positive durations, categories of the reference; magnitude 0 => exact copies; confinement derived
per flag set (what may change: segments / labels / count / total duration).
"""
import itertools

from .. import e1
from ..rngseam import Policy, T_GENERIC
from ..spec import build_continuum, continuum_to_spec, spec_by_annotator, cont

ID = "C19"
TASK_TIMEOUT = 2400.0
PRECISION = 1e-6
META = {
    "rule": "execution = one complete answer sequence for (reference, magnitude, annotators, perturbation set); "
            "non-trivial = executions whose corpus differs from plain copies of the reference; outcomes = "
            "distinct corpora",
    "assumptions": ["np.random is the tool's only source of randomness (diverging replay = harness error)",
                    "generic answers for continuous draws: exact coincidences of two shifted / generated units "
                    "(probability zero) are not manufactured", "the shift re-draw loop is forced at most once per "
                    "unit; a cut within the segment precision of the unit's end (split fallback) only under the "
                    "deviation bound, where '+1 unit per split' is not asserted (counted as unspecified)"],
    "explanation": "stateless exploration of all RNG answer sequences of the real tool; oracle = the statement's "
                   "validity and confinement clauses, per flag set",
}

REFS = {  # labels of unequal length on purpose (fixed-width string arrays would truncate the longer ones)
    "s2": cont(("ref", [(0, 4, "x"), (6, 9, "speech_overlap")])),
    "s3": cont(("ref", [(1, 3, "x"), (1, 3, "yy_long"), (5, 10, "x")])),  # two units on the same segment
    "t2": cont(("alpha", [(2, 5, "p"), (7, 8, "qq")]), ("beta", [(0, 1, "rrr")])),  # 2 annotators: first is the reference
}
FLAGS = ("shift", "false_pos", "false_neg", "cat_shuffle", "split")
OPS = {"shift": "shift_shuffle", "false_pos": "false_pos_shuffle", "false_neg": "false_neg_shuffle",
       "cat_shuffle": "category_shuffle", "split": "splits_shuffle"}


class CstPolicy(Policy):
    def __init__(self, nt=3, nz=3, nr=3, boundary=False):
        super().__init__(nz=nz, nt=nt, nr=nr, boundary=boundary)

    def uniform(self, a, b, log):
        if a == -1 and b == 1:
            # shift perturbation: requests come in (start, end) pairs, re-drawn while start >= end.
            # After one failed pair for the same unit only the default is offered (same t twice => start < end).
            since = 0
            for e in reversed(log):
                if e["fn"] == "mark":
                    break
                if e["fn"] == "uniform":
                    since += 1
            if since >= 2:
                return [a + T_GENERIC[0] * (b - a)]
            return [a + t * (b - a) for t in T_GENERIC[: self.nt]] + ([-1.0] if self.boundary else [])
        m = [a + t * (b - a) for t in T_GENERIC[: self.nt]] if a != b else [float(a)]
        if self.boundary and a != b:
            m.append(float(a))
            m.append(b - 1e-9 * max(1.0, abs(b)))  # a cut within the segment precision of the end
        return m

    def normal(self, mu, sigma, log):
        # no sub-precision duration answers: the false-positive generator has no branch for them
        # (a duration below the segment precision has probability ~1e-6 per draw), see DESIGN section 6
        if sigma == 0:
            return [float(mu)]
        from ..rngseam import Z_GENERIC
        return [mu + z * sigma for z in Z_GENERIC[: self.nz]]

    def random(self, log):
        m = super().random(log)
        if not self.boundary:
            m = m + [0.0]
        return m


def configs(tier):
    out = []
    q = tier == "quick"
    two = ["g0", "g1"]
    # ---- each perturbation alone
    for m in (0.0, 0.3, 0.7, 1.0):
        out.append(dict(ref="s2", m=m, ann=2, op="shift", bound=None, nt=3 if m < 1 or q else 3))
        out.append(dict(ref="s3", m=m, ann=["zed"], op="shift", bound=None, nt=3))
        out.append(dict(ref="s3", m=m, ann=two, op="false_neg", bound=None))
        out.append(dict(ref="s2", m=m, ann=2, op="false_neg", bound=None))
        out.append(dict(ref="t2", m=m, ann=2, op="false_pos", bound=None if m < 1 else (4 if q else None)))
        out.append(dict(ref="s2", m=m, ann=two, op="false_pos", bound=None))
        out.append(dict(ref="s3", m=m, ann=2, op="cat_shuffle", bound=None))
        out.append(dict(ref="t2", m=m, ann=["k"], op="cat_shuffle", bound=None))
        out.append(dict(ref="s2", m=m, ann=["k"], op="split", bound=None if m < 1 else (4 if q else 5), boundary=m >= 1))
        out.append(dict(ref="s2", m=m, ann=2, op="split", bound=None if m < 0.5 else (3 if q else 4), boundary=True))
        out.append(dict(ref="s3", m=m, ann=["k"], op="split", bound=None if m < 0.5 else (3 if q else 4), boundary=True))
    # ---- the same perturbations through corpus_shuffle (flag routing), pairs and all combinations
    for ref in ("s2", "s3", "t2"):
        for m in (0.0, 0.3, 0.7, 1.0):
            for r in (1, 2):
                for fl in itertools.combinations(FLAGS, r):
                    if r == 2 and q and ref == "s3":
                        continue
                    out.append(dict(ref=ref, m=m, ann=2 if ref != "t2" else two, op="corpus", flags=list(fl),
                                    include_ref=False, bound=2, boundary=True))
            for r in (0, 3, 4, 5):
                for fl in itertools.combinations(FLAGS, r):
                    for inc in (False, True):
                        out.append(dict(ref=ref, m=m, ann=two, op="corpus", flags=list(fl), include_ref=inc,
                                        bound=1 if q else 2, boundary=True))
            for fl in itertools.combinations(FLAGS, 1):
                out.append(dict(ref=ref, m=m, ann=two, op="corpus", flags=list(fl), include_ref=True, bound=1,
                                boundary=False))
    out.append(dict(ref="s2", m=0.7, ann=2, op="corpus", flags=["shift"], include_ref=False, bound=1, extra=["zz"]))
    # ---- requested annotator names that include the reference annotator's own name (legal without include_ref)
    for ref, names in (("s2", ["ref", "other"]), ("t2", ["alpha", "beta"]), ("s3", ["ref"])):
        for m in (0.3, 1.0):
            for fl in ([f] for f in FLAGS):
                out.append(dict(ref=ref, m=m, ann=names, op="corpus", flags=fl, include_ref=False,
                                bound=1 if q else 2, boundary=False))
            out.append(dict(ref=ref, m=m, ann=names, op="corpus", flags=list(FLAGS), include_ref=False, bound=1))
    # ---- non-initial states: the same tool object already produced a corpus at another magnitude
    for ref in ("s3", "t2"):
        for m in (0.0, 0.3):
            for fl in (["cat_shuffle"], ["shift"], ["false_neg"], ["split"], ["false_pos"], list(FLAGS)):
                out.append(dict(ref=ref, m=m, ann=two, op="corpus", flags=fl, include_ref=False, bound=1,
                                pre={"m": 1.0, "flags": fl}))
            out.append(dict(ref=ref, m=m, ann=2, op="corpus", flags=["cat_shuffle"], include_ref=False, bound=1,
                            pre={"m": 0.7, "flags": ["cat_shuffle", "shift"]}))
    return out


def requested(cfg):
    a = cfg["ann"]
    return [f"annotator_{i}" for i in range(a)] if isinstance(a, int) else list(a)


def make_fn_factory(cfg):
    from ..load import load
    pa = load()

    def make_fn():
        ref = build_continuum(REFS[cfg["ref"]])
        pre = cfg.get("pre")
        cst = pa.CorpusShufflingTool(pre["m"] if pre else cfg["m"], ref,
                                     **({"categories": cfg["extra"]} if cfg.get("extra") else {}))

        def fn():
            orig_add = pa.Continuum.add

            def add(self, *a, **k):
                e1.mark("add")
                return orig_add(self, *a, **k)
            pa.Continuum.add = add
            try:
                if pre:
                    earlier = cst.corpus_shuffle(["p0"], **{f: True for f in pre["flags"]})
                    # the caller goes on working with the earlier corpus: a unit with a label of their own, a new annotator
                    from pyannote.core import Segment
                    orig_add(earlier, "p0", Segment(900, 901), "alien")
                    earlier.add_annotator("visitor")
                    cst.magnitude = cfg["m"]
                    e1.mark("judged")
                if cfg["op"] == "corpus":
                    kw = {f: True for f in cfg["flags"]}
                    c = cst.corpus_shuffle(cfg["ann"], include_ref=cfg.get("include_ref", False), **kw)
                else:
                    c = cst.corpus_from_reference(cfg["ann"])
                    e1.mark("start")
                    getattr(cst, OPS[cfg["op"]])(c)
            finally:
                pa.Continuum.add = orig_add
            return continuum_to_spec(c), sorted(c.categories)
        return fn
    return make_fn


def policy_for(cfg):
    return CstPolicy(nt=cfg.get("nt", 3), boundary=cfg.get("boundary", False))


def near(a, b):
    return abs(a - b) <= 1e-9 * max(1.0, abs(a), abs(b))


def judge_factory(cfg):
    spec = REFS[cfg["ref"]]
    byann = spec_by_annotator(spec)
    ref_name, R = byann[0]
    R = set(R)
    ref_cats = {u[2] for _, us in byann for u in us} | set(cfg.get("extra") or [])
    req = requested(cfg)
    flags = set(cfg["flags"]) if cfg["op"] == "corpus" else {cfg["op"]}
    m = cfg["m"]
    inc = cfg.get("include_ref", False)
    dur_R = sum(u[1] - u[0] for u in R)
    segs_R = {(u[0], u[1]) for u in R}
    dup_segments = len(segs_R) < len(R)

    def judge(val, exc, log):
        if exc is not None:
            return [(f"shuffling tool raised: {exc}", None)]
        probs = []
        for k in range(len(log) - 1, -1, -1):
            if log[k]["fn"] == "mark" and log[k]["event"] == "judged":
                log = log[k + 1:]  # only the requests of the call that is judged
                break
        sample, cats = val
        anns = dict((a, set((u[0], u[1], u[2]) for u in us)) for a, us in sample["annotators"])
        want = sorted(req + ([ref_name] if inc else []))
        if sorted(anns) != want:
            return [(f"corpus annotators {sorted(anns)} but requested {want}", None)]
        for a, us in anns.items():
            if not us:
                probs.append((f"annotator {a} is empty", None))
            for s, e, lab in us:
                if not e - s > 0:
                    probs.append((f"unit [{s}, {e}] of {a} has no positive duration", None))
                if lab not in ref_cats:
                    probs.append((f"category {lab!r} of {a} is not a category of the reference", None))
        if not set(cats) <= {c for c in ref_cats if c is not None}:
            probs.append((f"corpus categories {cats} are not among the reference's {sorted(ref_cats, key=str)}", None))
        if inc and anns[ref_name] != R:
            probs.append((f"included reference annotator differs from the reference: {sorted(anns[ref_name])}", None))
        if probs:
            return probs
        # a cut that leaves a piece shorter than (10x) the segment precision cannot be carried out
        # units a shift can have produced: every reference unit moved by every (start, end) pair of consecutive
        # shift answers of the judged call - a superset that does not depend on the order units are visited in
        shift_max = None
        shifted_possible = None
        if "shift" in flags and "false_pos" not in flags and "split" not in flags:
            ts = [e["answer"] for e in log if e["fn"] == "uniform" and e["a"] == -1 and e["b"] == 1]
            all_units = [u for _, us in byann for u in us]
            avg_len = sum(u[1] - u[0] for u in all_units) / len(all_units)
            shift_max = m * 2 * avg_len
            shifted_possible = set()
            for (s0, e0, lab) in R:
                for t1, t2 in zip(ts, ts[1:]):
                    shifted_possible.add((s0 + t1 * shift_max, e0 + t2 * shift_max, lab))
        boundary_cut = any(e["fn"] == "uniform" and not (e["a"] == -1 and e["b"] == 1) and
                           (e["b"] - e["answer"] < 10 * PRECISION or
                            e["answer"] - (e["a"] - 0.01 * e["b"]) / 0.99 < 10 * PRECISION) for e in log)
        nsplit_req = sum(1 for e in log if e["fn"] == "randint")
        for a in req:
            us = anns[a]
            if m == 0 and us != R:
                probs.append((f"magnitude 0 but {a} is not an exact copy of the reference: {sorted(us)}", None))
                continue
            segs = {(u[0], u[1]) for u in us}
            labs = sorted(u[2] for u in us)
            dur = sum(u[1] - u[0] for u in us)
            if flags <= {"cat_shuffle", "false_neg"} and not segs <= segs_R:
                probs.append((f"{sorted(flags)} produced a segment that is not in the reference for {a}: "
                              f"{sorted(segs - segs_R)}", None))
            if flags == {"cat_shuffle"} and segs != segs_R:
                probs.append((f"category shuffling lost / changed segments of {a}: {sorted(segs)}", None))
            if flags == {"false_neg"} and not us <= R:
                probs.append((f"false negatives changed units of {a}: {sorted(us - R)} not in the reference", None))
            if flags == {"false_pos"} and not R <= us:
                probs.append((f"false positives removed units of {a}: {sorted(R - us)} missing", None))
            if "false_pos" not in flags and "split" not in flags and len(us) > len(R):
                probs.append((f"{sorted(flags)} added units to {a}: {len(us)} > {len(R)}", None))
            if shifted_possible is not None and "cat_shuffle" not in flags and m > 0:
                stray = [u for u in us if not any(abs(u[0] - p[0]) <= 1e-9 * max(1, abs(p[0])) and
                                                  abs(u[1] - p[1]) <= 1e-9 * max(1, abs(p[1])) and u[2] == p[2]
                                                  for p in shifted_possible)]
                if stray:
                    probs.append((f"{sorted(flags)}: {a} holds {stray[:2]} which is not a reference unit moved by any of the "
                                  f"shift answers (only shifting and removing were requested)", None))
            if flags == {"shift"} and len(us) != len(R):
                probs.append((f"shifting changed the number of units of {a}: {len(us)} != {len(R)}", None))
            if flags == {"shift"} and labs != sorted(u[2] for u in R):
                probs.append((f"shifting changed the labels of {a}: {labs}", None))
            if "false_neg" not in flags and "cat_shuffle" not in flags and len(us) < len(R):
                probs.append((f"{sorted(flags)} removed units of {a}: {len(us)} < {len(R)}", None))
            if flags <= {"split"} or (flags <= {"split", "cat_shuffle"} and not dup_segments):
                if not near(dur, dur_R):
                    probs.append((f"{sorted(flags)} changed the total annotated duration of {a}: {dur} != {dur_R}", None))
            if flags == {"split"}:
                per = nsplit_req // max(1, len(req))
                if not boundary_cut and len(us) != len(R) + per:
                    probs.append((f"{per} split(s) announced for {a} but it has {len(us)} units "
                                  f"(reference {len(R)})", None))
                if not set(labs) <= {u[2] for u in R}:
                    probs.append((f"splitting changed labels of {a}", None))
        return probs
    return judge


def shards(tier, seed):
    tasks = []
    for cfg in configs(tier):
        mf = make_fn_factory(cfg)
        for root in e1.compute_roots(mf, policy_for(cfg), depth=2 if tier == "quick" else 3, bound=cfg["bound"], horizon=300):
            tasks.append({"cfg": cfg, "root": root})
    # group tiny tasks: one task per ~40 roots
    grouped = []
    per = 24 if tier == "quick" else 3
    for i in range(0, len(tasks), per):
        grouped.append({"group": tasks[i:i + per]})
    return grouped


def run(task):
    res = e1.new_result()
    for t in task["group"]:
        cfg = t["cfg"]
        spec = REFS[cfg["ref"]]
        R = set(spec_by_annotator(spec)[0][1])

        def case_of(choices, cfg=cfg):
            return {"cfg": cfg, "choices": choices}

        def outcome_of(val, exc, log):
            return None if exc is not None else val[0]

        def nontrivial_of(val, exc, log, R=R):
            if exc is not None:
                return False
            return any(set((u[0], u[1], u[2]) for u in us) != R for _, us in val[0]["annotators"])

        def sample_of(val, exc, log, choices, cfg=cfg):
            if exc is not None or sum(1 for c in choices if c) < 1 or len(cfg.get("flags", [])) < 2:
                return None
            return {"config": cfg, "choices": choices, "corpus": val[0],
                    "requests": [{k: v for k, v in e.items() if k != "i"} for e in log if e["fn"] != "mark"][:6]}

        unspec_before = res["unspecified"]
        e1.explore_config(make_fn_factory(cfg), judge_factory(cfg), policy_for(cfg), root=t["root"],
                          bound=cfg["bound"], horizon=300, res=res, case_of=case_of, outcome_of=outcome_of,
                          nontrivial_of=nontrivial_of, sample_of=sample_of)
    return res


def replay(case):
    from ..explorer import Chooser
    cfg = case["cfg"]
    val, exc, log = e1.run_with_seam(make_fn_factory(cfg)(), Chooser(case["choices"]), policy_for(cfg))
    return [{"msg": m, "known": k, "case": case} for m, k in judge_factory(cfg)(val, exc, log)]
