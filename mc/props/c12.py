"""C12 - gamma-cat and gamma-k follow their definition.

E3: every alignment (every partition into unitary alignments, own enumerator; plus the library's
best and soft alignments) of every continuum of bounded universes x category (each label, one
absent label, None = gamma-cat) x combined dissimilarities; oracle = direct transcription of the
statement.  GammaResults.gamma_cat / gamma_k checked on result objects whose chance alignments are
known; TypeError demanded for every non-combined dissimilarity.
"""
import itertools

from . import _align as A
from ..oracles import pos_value, cat_matrix, close
from ..runner import h
from ..serial import serial_pool
from ..spec import build_continuum, spec_by_annotator, to_unit, cont
from ..universe import iter_G, size_G

ID = "C12"
TASK_TIMEOUT = 1200.0
META = {
    "rule": "case = (continuum, alignment, category, combined dissimilarity); non-trivial = distinct cases with at "
            "least one counted pair of real units whose categories differ and whose positional weight is in (0,1); "
            "outcomes = distinct categorical disorder values",
    "assumptions": ["no counted pair of real units, or zero total weight, or zero mean chance disorder: the statement "
                    "gives no value (unspecified, not asserted)", "agreement within 1e-4 relative"],
    "explanation": "explicit enumeration of bounded continua x all their alignments x categories x dissimilarities "
                   "against a transcription of the definition",
}

LABS = ["x", "y", "z"]


def dissims(tier):
    """Ordered so that neighbours share alpha but differ in the positional / categorical part, and vice versa:
    the same Alignment object is evaluated with the whole list forwards and then backwards, so a value cached
    on the alignment under a too coarse key (alpha only, delta_empty only, nothing) is observed."""
    cats = [None, {"k": "ord", "labels": ["", "x", "y", "z"]}, {"k": "lev", "labels": ["", "x", "y", "z", "xyz", "w"]}]
    combos = [(1.0, 1.0, 1.0, 0), (1.0, 1.0, 2.0, 1), (1.0, 2.0, 0.5, 0), (0.0, 1.0, 1.0, 0), (0.0, 1.0, 2.0, 2),
              (3.0, 2.0, 0.5, 0), (3.0, 1.0, 1.0, 1), (0.5, 1.0, 0.5, 2), (0.5, 1.0, 1.0, 0),
              # beta = 0: the alignment's own disorders say nothing about categories (the categorical disorder does not use beta)
              (1.0, 0.0, 1.0, 0), (2.0, 0.0, 0.5, 1)]
    if tier == "thorough":
        combos += [(1.0, 0.5, 0.5, 1), (3.0, 1.0, 2.0, 2), (1.0, 1.0, 1.0, 2), (2.0, 1.0, 1.0, 0), (2.0, 1.0, 1.0, 1)]
    out = []
    for a, b, de, ci in combos:
        r = {"k": "comb", "a": a, "b": b, "de": de}
        if cats[ci] is not None:
            r["cat"] = cats[ci]
        out.append(r)
    return out


BETA0 = {"k": "comb", "a": 1.0, "b": 0.0, "de": 1.0}
POS_ONLY = {"k": "pos", "de": 1.0}


def cat_fn(recipe):
    de = float(recipe.get("de", 1.0))
    c = recipe.get("cat")
    if c is None or c["k"] == "abs":
        return lambda u, v: (0.0 if u[2] == v[2] else 1.0) * de
    m = cat_matrix(c)
    return lambda u, v: m[(u[2], v[2])] * de


def oracle_cat_disorder(nts, recipe, category):
    """None = unspecified by the statement."""
    de = float(recipe.get("de", 1.0))
    alpha = float(recipe.get("a", 1.0))
    pos_de = de if recipe.get("pos") is None else float(recipe["pos"].get("de", 1.0))
    cat = cat_fn(recipe)
    tot = 0.0
    w = 0.0
    real_pairs = 0
    for nt in nts:
        units = [u for _, u in nt]
        k = sum(1 for u in units if u is not None)
        for i in range(len(units)):
            for j in range(i + 1, len(units)):
                u, v = units[i], units[j]
                if category is not None and not ((u is not None and u[2] == category) or
                                                 (v is not None and v[2] == category)):
                    continue
                if u is None and v is None:
                    continue
                if u is None or v is None:
                    tot += de * de
                    w += de
                    continue
                real_pairs += 1
                weight = (1.0 / (k - 1)) * max(0.0, 1.0 - alpha * pos_value(u, v) * pos_de)
                tot += cat(u, v) * weight
                w += weight
    if real_pairs == 0 or w == 0:
        return None
    return tot / w


def all_alignments(byann, cap):
    """Every partition of the units into unitary alignments (one slot per annotator), simplest first."""
    names = [a for a, _ in byann]
    units = [(ai, u) for ai, (a, us) in enumerate(byann) for u in us]
    n = len(names)
    out = []

    def rec(remaining, acc):
        if len(out) >= cap:
            return
        if not remaining:
            out.append(list(acc))
            return
        first = remaining[0]
        rest = remaining[1:]
        others = [r for r in rest if r[0] != first[0]]
        # choose for each other annotator either nothing or one of its remaining units
        per_ann = {}
        for r in others:
            per_ann.setdefault(r[0], []).append(r)
        anns = sorted(per_ann)
        for combo in itertools.product(*[[None] + per_ann[a] for a in anns]):
            chosen = [first] + [c for c in combo if c is not None]
            slots = {ai: u for ai, u in chosen}
            nt = [(names[i], slots.get(i)) for i in range(n)]
            rem2 = [r for r in rest if r not in chosen]
            acc.append(nt)
            rec(rem2, acc)
            acc.pop()
            if len(out) >= cap:
                return
    rec(units, [])
    return out


def lib_alignment(pa, nts, c=None, soft=False):
    uas = [pa.UnitaryAlignment([(a, None if u is None else to_unit(u)) for a, u in nt]) for nt in nts]
    from pygamma_agreement.alignment import SoftAlignment
    return (SoftAlignment if soft else pa.Alignment)(uas, continuum=c)


def shards(tier, seed):
    U = [dict(n=2, k=2, T=2, labels=LABS), dict(n=3, k=1, T=2, labels=LABS), dict(n=4, k=1, T=2, labels=["x", "y"]),
         dict(n=2, k=2, T=2, labels=["", "x"]), dict(n=3, k=1, T=2, labels=["", "x", "y"]),  # "" is a legal category
         dict(n=5, k=1, T=1, labels=["x", "y"])]
    if tier == "thorough":
        U += [dict(n=3, k=2, T=2, labels=["x", "y"], sym=True), dict(n=2, k=3, T=2, labels=["x", "y"])]
    tasks = []
    for u in U:
        ns = max(1, min(40, size_G(u["n"], u["k"], u["T"], u["labels"]) // 60))
        for s in range(ns):
            tasks.append({"universe": u, "shard": s, "nshards": ns, "tier": tier})
    tasks.append({"results": True, "tier": tier})
    tasks.append({"typeerror": True, "tier": tier})
    return tasks


def check_value(got, want):
    return want is None or close(got, want)


def run(task):
    from ..load import load
    pa = load()
    res = {"evaluations": 0, "transitions": 0, "traces": 0, "state_set": [], "nontrivial": [], "outcomes": [],
           "samples": [], "violations": [], "unspecified": 0, "extra": {}}
    tier = task["tier"]
    D = dissims(tier)
    if task.get("typeerror"):
        return run_typeerror(pa, res)
    if task.get("results"):
        return run_results(pa, res, D)
    cap = 40 if tier == "quick" else 200
    for spec in A.iter_task_specs(task):
        byann = spec_by_annotator(spec)
        c = build_continuum(spec)
        aligns = [("enum", nts, False) for nts in all_alignments(byann, cap)]
        lib_objs = {}
        for kind in ("best", "soft"):
            obs = A.eval_case(spec, D[0], "cbc", kind)
            if obs["ok"]:
                aligns.append((kind, obs["nts"], kind == "soft"))
            # the library's own alignment object (it carries the unitary disorders of the dissimilarity that built
            # it) for a dissimilarity that ignores categories: judged with every recipe below
            try:
                lal = A.run_alignment(c, A.DISSIMS.get(BETA0), kind)
                lib_objs[len(aligns)] = lal
                aligns.append((kind + "-beta0-object", A.observe_alignment(lal)[0], kind == "soft"))
            except Exception:  # noqa
                pass
        labels = A.spec_label_set(spec)
        cats = [None] + [l for l in labels if l is not None] + ["w"]
        for ai, (src, nts, soft) in enumerate(aligns):
            al = lib_objs.get(ai) or lib_alignment(pa, nts, c, soft)
            # forwards with every category, then backwards (gamma-cat and one category) on the SAME object
            plan = [(r, cats) for r in D] + [(r, cats[:2]) for r in reversed(D[:-1])]
            for pi, (recipe, cat_list) in enumerate(plan):
                d = A.DISSIMS.get(recipe)
                prior = "beta0-object" if ai in lib_objs else None
                if pi >= len(D) and ai % 2 == 0:
                    prior = (prior or "") + ("+pos" if pi % 2 == 0 else "+self")
                    # backwards pass: in between, the caller (re)computes the alignment's disorder with a dissimilarity
                    # that does not look at categories, or with the one about to be used - the stored unitary
                    # disorders then say nothing about the categorical one
                    try:
                        al.compute_disorder(A.DISSIMS.get(POS_ONLY) if pi % 2 == 0 else d)
                    except Exception:  # noqa
                        pass
                for category in cat_list:
                    res["evaluations"] += 1
                    res["transitions"] += 1
                    res["traces"] += 1
                    want = oracle_cat_disorder(nts, recipe, category)
                    try:
                        got = float(al.gamma_k_disorder(d, category))
                    except Exception as e:  # noqa
                        got = None
                        err = f"{type(e).__name__}: {e}"
                    key = h([nts, recipe, category])
                    res["state_set"].append(key)
                    if want is None:
                        res["unspecified"] += 1
                        continue
                    res["outcomes"].append(round(want, 5))
                    if got is None or not close(got, want):
                        res["violations"].append({
                            "msg": f"categorical disorder (category {category!r}) is {got if got is not None else err} "
                                   f"but the definition gives {want}",
                            "case": {"nts": nts, "recipe": recipe, "category": category, "soft": soft, "spec": spec,
                                     "prior": prior}})
                    elif 0 < want and nontrivial(nts, recipe, category):
                        res["nontrivial"].append(key)
                        if len(res["samples"]) < 2:
                            res["samples"].append({"alignment": nts, "dissimilarity": recipe, "category": category,
                                                   "categorical_disorder": want})
    return res


def nontrivial(nts, recipe, category):
    alpha = float(recipe.get("a", 1.0))
    de = float(recipe.get("de", 1.0))
    for nt in nts:
        us = [u for _, u in nt if u is not None]
        for u, v in itertools.combinations(us, 2):
            if u[2] != v[2] and 0 < 1 - alpha * pos_value(u, v) * de < 1:
                return True
    return False


RES_INPUTS = [
    cont(("a", [(0, 3, "x"), (5, 8, "y")]), ("b", [(1, 3, "y"), (5, 9, "y")])),
    cont(("a", [(0, 3, "x"), (5, 8, "y")]), ("b", [(0, 3, "x"), (5, 8, "y")])),          # identical: gamma-cat 1
    cont(("a", [(0, 3, "x"), (5, 8, "y")]), ("b", [(0.5, 3, "x"), (5, 8.5, "y")])),      # same categories, all aligned
    cont(("a", [(0, 2, "x")]), ("b", [(1, 3, "y"), (6, 7, "y")]), ("c", [(0, 3, "z")])),
    cont(("a", [(0, 2, "x"), (9, 10, "z")]), ("b", [(1, 3, "x")]), ("c", [(0, 3, "x"), (20, 21, "y")])),
]
RES_CHANCE = [
    cont(("s0", [(0, 2, "x")]), ("s1", [(1, 3, "y")])),
    cont(("s0", [(0, 2, "x"), (4, 6, "z")]), ("s1", [(0, 2, "y"), (5, 6, "z")])),
    cont(("s0", [(0, 2, "x")]), ("s1", [(0, 2, "x")])),
    cont(("s0", [(0, 1, "y")]), ("s1", [(10, 11, "y")])),
    cont(("s0", [(0, 2, "z")]), ("s1", [(1, 2, "x")]), ("s2", [(0, 3, "y")])),
]


def run_results(pa, res, D):
    """GammaResults.gamma_cat / gamma_k = 1 - observed / mean chance categorical disorder."""
    for recipe in D:
        d = A.DISSIMS.get(recipe)
        for kind in ("best", "soft"):
            chance_all = []
            for cs in RES_CHANCE:
                cc = build_continuum(cs)
                al = A.run_alignment(cc, d, kind)
                chance_all.append((al, A.observe_alignment(al)[0]))
            for spec in RES_INPUTS:
                c = build_continuum(spec)
                best = A.run_alignment(c, d, kind)
                bnts = A.observe_alignment(best)[0]
                for r in (1, 2, 3):
                    for subset in itertools.combinations(range(len(chance_all)), r):
                        gr = pa.GammaResults(best_alignment=best, chance_alignments=[chance_all[i][0] for i in subset],
                                             dissimilarity=d)
                        cats = [None] + A.spec_label_set(spec) + ["w"]
                        for category in cats:
                            res["evaluations"] += 1
                            res["transitions"] += 1
                            res["traces"] += 1
                            key = h([spec, recipe, kind, subset, category])
                            res["state_set"].append(key)
                            obs = oracle_cat_disorder(bnts, recipe, category)
                            ch = [oracle_cat_disorder(chance_all[i][1], recipe, category) for i in subset]
                            if obs is None or any(x is None for x in ch):
                                res["unspecified"] += 1
                                continue
                            mean = sum(ch) / len(ch)
                            if obs != 0 and mean == 0:
                                res["unspecified"] += 1
                                continue
                            want = 1.0 if obs == 0 else 1 - obs / mean
                            import os as _os
                            real_cpu = _os.cpu_count
                            gots = []
                            for cpus in (None, 1, 2):  # the number of workers must not influence the value
                                if cpus is not None:
                                    _os.cpu_count = lambda cpus=cpus: cpus
                                try:
                                    with serial_pool():
                                        gots.append(float(gr.gamma_cat if category is None else gr.gamma_k(category)))
                                except Exception as e:  # noqa
                                    gots.append(f"{type(e).__name__}: {e}")
                                finally:
                                    _os.cpu_count = real_cpu
                            got = gots[0] if all(isinstance(g, float) and close(g, gots[0]) for g in gots) else gots
                            ok = isinstance(got, float) and close(got, want) and got <= 1 + 1e-9
                            res["outcomes"].append(round(want, 5))
                            if ok:
                                res["nontrivial"].append(key)
                            else:
                                res["violations"].append({
                                    "msg": f"gamma-{'cat' if category is None else 'k(' + category + ')'} = {got} but "
                                           f"1 - observed/mean chance = {want} (observed {obs}, chance {ch})",
                                    "case": {"results": {"spec": spec, "recipe": recipe, "kind": kind,
                                                         "subset": list(subset), "category": category}}})
    return res


def run_typeerror(pa, res):
    spec = RES_INPUTS[0]
    c = build_continuum(spec)
    al_src = A.eval_case(spec, {"k": "comb"}, "cbc", "best")
    al = lib_alignment(pa, al_src["nts"], c)
    for recipe in ({"k": "pos", "de": 1.0}, {"k": "abs", "de": 1.0}, {"k": "lev", "labels": ["x", "y"]},
                   {"k": "ord", "labels": ["x", "y"]}, {"k": "num", "labels": ["1", "2"]},
                   {"k": "pre", "labels": ["x", "y"], "matrix": [[0, 1], [1, 0]]}):
        d = A.DISSIMS.get(recipe)
        for category in (None, "x"):
            res["evaluations"] += 1
            res["transitions"] += 1
            res["traces"] += 1
            res["state_set"].append(h(["typeerror", recipe, category]))
            try:
                v = al.gamma_k_disorder(d, category)
                res["violations"].append({"msg": f"gamma_k_disorder accepted non-combined dissimilarity {recipe} "
                                                 f"(returned {v})", "case": {"typeerror": recipe, "category": category}})
            except TypeError:
                res["nontrivial"].append(h(["typeerror", recipe, category]))
            except Exception as e:  # noqa
                res["violations"].append({"msg": f"non-combined dissimilarity {recipe}: {type(e).__name__} instead of "
                                                 f"TypeError", "case": {"typeerror": recipe, "category": category}})
    return res


def replay(case):
    from ..load import load
    pa = load()
    res = {"evaluations": 0, "transitions": 0, "traces": 0, "state_set": [], "nontrivial": [], "outcomes": [],
           "samples": [], "violations": [], "unspecified": 0, "extra": {}}
    if "typeerror" in case:
        return [v for v in run_typeerror(pa, res)["violations"] if v["case"] == case]
    if "results" in case:
        r = case["results"]
        D = [r["recipe"]]
        out = run_results(pa, res, D)["violations"]
        return [v for v in out if v["case"]["results"]["spec"] == r["spec"] and v["case"]["results"]["kind"] == r["kind"]
                and v["case"]["results"]["subset"] == r["subset"] and v["case"]["results"]["category"] == r["category"]]
    nts = [[(a, None if u is None else tuple(u)) for a, u in nt] for nt in case["nts"]]
    c = build_continuum(case["spec"])
    prior = case.get("prior") or ""
    if prior.startswith("beta0-object"):
        al = A.run_alignment(c, A.DISSIMS.get(BETA0), "soft" if case.get("soft") else "best")
        nts = A.observe_alignment(al)[0]
    else:
        al = lib_alignment(pa, nts, c, case.get("soft", False))
    if prior.endswith("+pos"):
        al.compute_disorder(A.DISSIMS.get(POS_ONLY))
    elif prior.endswith("+self"):
        al.compute_disorder(A.DISSIMS.get(case["recipe"]))
    want = oracle_cat_disorder(nts, case["recipe"], case["category"])
    try:
        got = float(al.gamma_k_disorder(A.DISSIMS.get(case["recipe"]), case["category"]))
    except Exception as e:  # noqa
        got = None
    if want is not None and (got is None or not close(got, want)):
        return [{"msg": f"categorical disorder {got} but the definition gives {want}", "case": case}]
    return []
