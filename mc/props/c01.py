"""C01 - the best alignment is a partition of the continuum's units, and the computation returns.

Every continuum of the bounded universes (empty annotators, identical / nested / overlapping
units, labelled and unlabelled) x dissimilarity menu x both MIP back-ends; oracle: own
structural validator on unitary_alignments[*].n_tuple versus the input description.
"""
from . import _align as A
from ..oracles import check_partition
from ..runner import h
from ..spec import spec_by_annotator

ID = "C01"
HANG_IS_VIOLATION = True
CRASH_IS_VIOLATION = True
TASK_TIMEOUT = 900.0
META = {
    "rule": "case = (continuum, dissimilarity recipe, MIP back-end); non-trivial = distinct (continuum, recipe) "
            "whose returned alignment contains a unitary alignment with >= 2 real units or the continuum has an "
            "empty annotator / unlabelled unit / two identical segments across annotators; outcomes = distinct "
            "shapes (multiset of real-unit counts per unitary alignment)",
    "assumptions": ["a raised exception or no return within 60 s counts as 'does not return an alignment'",
                    "GLPK back-end forced by masking cylp in sys.modules"],
    "explanation": "explicit enumeration of a bounded input space; structural validator on every returned alignment",
}
KIND = "best"
COVER = False


def backends():
    return ["cbc", "glpk_noimport"] if A.cbc_available() else ["glpk_noimport"]


LONELY = [(99, 100, 0, 3), (100, 99, 2, 3), (99, 150, 1, 2), (149, 150, 0, 2)]


def shards(tier, seed):
    tasks = A.make_shards(tier, "struct", extra={"full": tier == "thorough", "dup_every": 7})
    # large inputs: > 10 000 / 15 000 / 22 500 candidates where the candidates that arrive when a result buffer is
    # full are the ONLY candidate of some unit (a lost candidate makes the program infeasible or the partition wrong)
    from .c02 import DE_SWEEP
    FAR = [[0, 1], [5, 6], [0, 6], [2, 3]]
    for u in (dict(n=4, k=1, T=6, labels=["x"], segs=FAR, sym=True), dict(n=5, k=1, T=6, labels=["x"], segs=FAR, sym=True)):
        for i in range(0, len(DE_SWEEP), 3):
            tasks.append({"universe": u, "shard": 0, "nshards": 1, "sweep": DE_SWEEP[i:i + 3], "full": False})
    fams = LONELY if tier == "thorough" else LONELY[:3]
    for f in fams:
        tasks.append({"lonely": list(f), "full": False})
    return tasks


def judge(spec, obs):
    if not obs["ok"]:
        return f"{KIND} alignment did not return an alignment: {obs['exc']}"
    probs = check_partition(obs["nts"], spec_by_annotator(spec), cover=COVER)
    if probs:
        return f"{KIND} alignment is not a {'cover' if COVER else 'partition'}: " + "; ".join(probs[:3])
    return None


def special(spec):
    segs = {}
    for a, us in spec["annotators"]:
        if not us:
            return True
        for u in us:
            if u[2] is None:
                return True
            segs.setdefault((u[0], u[1]), set()).add(a)
    return any(len(v) > 1 for v in segs.values())


def run(task):
    res = {"evaluations": 0, "transitions": 0, "traces": 0, "state_set": [], "nontrivial": [], "outcomes": [],
           "samples": [], "violations": []}
    full = task.get("full", False)
    if "lonely" in task:
        from ..universe import fam_block_lonely
        spec = fam_block_lonely(*task["lonely"])
        for recipe in ({"k": "pos", "de": 1.0}, {"k": "comb", "a": 1.0, "b": 1.0, "de": 0.7}):
            for backend in backends()[:1] if recipe["k"] == "comb" else backends():
                obs = A.eval_case(spec, recipe, backend, KIND)
                res["evaluations"] += 1
                res["transitions"] += 1
                res["traces"] += 1
                key = h(["lonely", task["lonely"], recipe, backend])
                res["state_set"].append(key)
                msg = judge(spec, obs)
                if msg:
                    res["violations"].append({"msg": msg[:300], "case": {"lonely": task["lonely"], "recipe": recipe,
                                                                          "backend": backend, "kind": KIND}})
                else:
                    res["nontrivial"].append(key)
                    res["outcomes"].append(h(["lonely", len(obs["nts"])]))
        return res
    for spec in A.iter_task_specs(task):
        labels = A.spec_label_set(spec)
        sp = special(spec)
        recipes = A.menu(labels, full)
        if task.get("sweep"):
            recipes = [{"k": "pos", "de": x} for x in task["sweep"]]
        for recipe in recipes:
            key = h([spec, recipe])
            res["state_set"].append(key)
            for backend in backends():
                obs = A.eval_case(spec, recipe, backend, KIND)
                res["evaluations"] += 1
                res["transitions"] += 1
                res["traces"] += 1
                msg = judge(spec, obs)
                if msg:
                    res["violations"].append({"msg": msg, "case": A.case_dict(spec, recipe, backend, KIND)})
                    continue
                shape = sorted(sum(1 for _, u in nt if u is not None) for nt in obs["nts"])
                res["outcomes"].append(h(shape))
                if sp or shape[-1] >= 2:
                    res["nontrivial"].append(key)
                if backend == "cbc" and len(res["state_set"]) % 4 == 0:
                    k = len(res["state_set"])
                    wrec = {"k": "pos", "de": 0.35} if recipe["k"] != "pos" else {"k": "comb", "a": 1.0, "b": 1.0, "de": 1.0}
                    if (k // 16) % 2 == 0:
                        wrec = recipe  # the earlier alignment used the very same dissimilarity object
                    warm = {"recipe": wrec, "how": A.WARM_KINDS[(k // 4) % len(A.WARM_KINDS)]}
                    obs2 = A.eval_case(spec, recipe, backend, KIND, warm=warm)
                    res["evaluations"] += 1
                    res["transitions"] += 2
                    res["traces"] += 1
                    msg2 = judge(spec, obs2)
                    if msg2:
                        res["violations"].append({"msg": msg2 + f" [continuum reached by {warm['how']}() after an earlier alignment]",
                                                  "case": dict(A.case_dict(spec, recipe, backend, KIND), warm=warm)})
                if len(res["samples"]) < 2 and sp and shape[-1] >= 2:
                    res["samples"].append({"continuum": spec, "dissimilarity": recipe, "backend": backend,
                                           "returned_unitary_alignments": obs["nts"]})
    return res


def replay(case):
    if "lonely" in case:
        from ..universe import fam_block_lonely
        spec = fam_block_lonely(*case["lonely"])
        msg = judge(spec, A.eval_case(spec, case["recipe"], case["backend"], KIND))
        return [{"msg": msg[:300], "case": case}] if msg else []
    obs = A.eval_case(case["spec"], case["recipe"], case["backend"], KIND, warm=case.get("warm"))
    msg = judge(case["spec"], obs)
    return [{"msg": msg, "case": case}] if msg else []
