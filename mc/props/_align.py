"""Shared driver for the alignment properties (C01 C02 C08 C11 C07 C10): dissimilarity menu,
MIP back-end configurations, observation of library alignments."""
import sys

from ..load import load
from ..spec import from_unit

# --------------------------------------------------------------------------- dissimilarity menu D

PRE_XY = {"k": "pre", "labels": ["x", "y"], "matrix": [[0.0, 0.6], [0.6, 0.0]]}
PRE_XYZ = {"k": "pre", "labels": ["x", "y", "z"], "matrix": [[0.0, 0.6, 1.0], [0.6, 0.0, 0.3], [1.0, 0.3, 0.0]]}


def menu(labels, full=False):
    """Dissimilarities applicable to continua over `labels` (None in labels => unlabelled units)."""
    unl = None in labels
    names = sorted(l for l in labels if l is not None)
    D = [{"k": "pos", "de": 1.0},
         {"k": "comb", "a": 1.0, "b": 1.0, "de": 1.0},
         {"k": "comb", "a": 3.0, "b": 2.0, "de": 0.7}]  # 0.7, 1.7: not exactly representable (rounding-sensitive)
    if full:
        D += [{"k": "pos", "de": 0.35}, {"k": "pos", "de": 2.5},
              {"k": "abs", "de": 1.0},
              {"k": "comb", "a": 0.0, "b": 1.0, "de": 1.0},
              {"k": "comb", "a": 1.0, "b": 0.0, "de": 2.0}]
    if len(names) >= 3:
        # three mutually different labels on one span: pairs are candidates, the triple is not (3.5 > 3 * delta_empty)
        D.append({"k": "comb", "a": 1.0, "b": 3.5, "de": 1.0})
    if not unl and names:
        # the scale is a strict superset of the labels in use, with unused grades before and between the used ones:
        # category positions come from the dissimilarity's own list, never from the continuum's categories
        D.append({"k": "comb", "a": 1.0, "b": 1.0, "de": 1.7, "cat": {"k": "ord", "labels": sorted(set(names) | {"m", "xx"})}})
        if full:
            D.append({"k": "comb", "a": 1.0, "b": 1.0, "de": 1.7, "cat": {"k": "ord", "labels": names}})
            D.append({"k": "comb", "a": 3.0, "b": 2.0, "de": 0.5})
            pre = PRE_XY if len(names) <= 2 else PRE_XYZ
            if set(names) <= set(pre["labels"]):
                D.append({"k": "comb", "a": 2.0, "b": 1.0, "de": 0.5, "cat": dict(pre, de=0.5)})
            D.append({"k": "comb", "a": 1.0, "b": 3.0, "de": 1.0, "cat": {"k": "ord", "labels": names},
                      "pos": {"k": "pos", "de": 1.0}})
    return D


# --------------------------------------------------------------------------- back-ends

BACKENDS = ("cbc", "glpk_noimport", "glpk_error")
_state = {"mode": "cbc", "calls": [], "installed": False, "cylp": None}


def install_backend_seam():
    if _state["installed"]:
        return
    import cvxpy as cp
    try:
        import cylp
        _state["cylp"] = cylp
    except ImportError:
        _state["cylp"] = None
    orig = cp.Problem.solve

    def solve(self, *a, **kw):
        solver = kw.get("solver")
        _state["calls"].append(solver)
        if _state["mode"] == "glpk_error" and solver == cp.CBC:
            raise cp.SolverError("injected by the harness: CBC unusable")
        if solver == cp.CBC:
            _state["cbc_count"] = _state.get("cbc_count", 0) + 1
            if _state["cbc_count"] in _state.get("fail_at", ()):
                raise cp.SolverError(f"injected by the harness: CBC call #{_state['cbc_count']} fails")
        return orig(self, *a, **kw)

    cp.Problem.solve = solve
    _state["installed"] = True


def set_backend(mode):
    assert mode in BACKENDS
    install_backend_seam()
    _state["mode"] = mode
    if mode == "glpk_noimport":
        sys.modules["cylp"] = None
    else:
        if _state["cylp"] is not None:
            sys.modules["cylp"] = _state["cylp"]
        else:
            sys.modules.pop("cylp", None)
    _state["calls"].clear()


def solver_calls():
    return list(_state["calls"])


def cbc_available():
    install_backend_seam()
    return _state["cylp"] is not None


# --------------------------------------------------------------------------- observation

def observe_alignment(al):
    """(list of n_tuples as [(annotator, triple|None)], reported disorder, per-unitary disorders|None)"""
    nts = []
    uds = []
    for ua in al.unitary_alignments:
        nts.append([(a, from_unit(u)) for a, u in ua.n_tuple])
        try:
            uds.append(float(ua.disorder))
        except ValueError:
            uds.append(None)
    return nts, float(al.disorder), uds


def run_alignment(c, d, kind, window=None):
    load()
    if kind == "best":
        return c.get_best_alignment(d)
    if kind == "soft":
        return c.get_best_soft_alignment(d)
    if kind == "fast":
        return c.get_fast_alignment(d, window)
    raise ValueError(kind)


# --------------------------------------------------------------------------- universes

def universes(tier, purpose="opt"):
    """List of universe descriptors (kwargs of universe.iter_G) + list of explicit family specs."""
    from ..universe import fam_staircase, fam_nested, fam_interleaved, fam_identical
    XY = ["x", "y"]
    # short and long segments mixed: a short far unit followed by a long unit that is within reach again
    LONG = [[0, 1], [2, 3], [2, 6], [0, 6], [5, 6], [1, 2]]
    if tier == "quick":
        U = [dict(n=2, k=2, T=3, labels=XY),
             dict(n=2, k=2, T=6, labels=["x"], segs=LONG),
             dict(n=3, k=2, T=6, labels=["x"], segs=LONG[:4], sym=True),
             dict(n=3, k=1, T=6, labels=["x"], segs=LONG),  # incl. [0,6] vs [0,1] and [5,6]: covers re-using a unit twice
             dict(n=4, k=1, T=6, labels=["x"], segs=[[0, 6], [0, 1], [5, 6], [2, 3]]),
             dict(n=2, k=2, T=3, labels=[None]),
             dict(n=2, k=2, T=2, labels=["x", None]),
             dict(n=2, k=2, T=2, labels=["", "x"]),  # the empty string is a legal label, distinct from "no label"
             dict(n=3, k=2, T=2, labels=XY, sym=True),
             dict(n=3, k=1, T=2, labels=["x", None]),
             dict(n=4, k=1, T=2, labels=XY),
             dict(n=5, k=1, T=2, labels=["x"]),
             # annotator names whose case-sensitive and case-insensitive orders differ, unequal unit counts
             dict(n=2, k=2, T=2, labels=["x"], names=["Zoe", "adam"]),
             dict(n=3, k=1, T=2, labels=["x"], names=["Bob", "Carl", "alice"]),
             dict(n=3, k=1, T=1, labels=["x", "y", "z"])]
    else:
        U = [dict(n=2, k=2, T=4, labels=XY),
             dict(n=2, k=3, T=6, labels=["x"], segs=LONG),
             dict(n=3, k=2, T=6, labels=["x"], segs=LONG),
             dict(n=2, k=2, T=6, labels=XY, segs=LONG),
             dict(n=2, k=3, T=3, labels=["x"]),
             dict(n=2, k=2, T=3, labels=["x", "y", None], max_labels=2),
             dict(n=3, k=2, T=2, labels=XY),
             dict(n=3, k=3, T=2, labels=["x"]),
             dict(n=3, k=2, T=2, labels=["x", None], sym=True),
             dict(n=4, k=1, T=2, labels=XY),
             dict(n=4, k=2, T=2, labels=["x"], sym=True),
             dict(n=5, k=1, T=2, labels=XY, sym=True),
             dict(n=2, k=3, T=2, labels=["x"], names=["Zoe", "adam"]),
             dict(n=3, k=2, T=2, labels=["x"], names=["Bob", "Carl", "alice"]),
             dict(n=3, k=1, T=2, labels=["x", "y", "z"])]
    if purpose in ("struct", "cover") and tier == "quick":
        U[0] = dict(U[0], sym=True)  # the largest 2-annotator universe: one representative per annotator swap
    if purpose == "backend":
        # one representative per annotator permutation (the back-end sees the same ILP up to column order)
        for u in U:
            if "ks" not in u and "names" not in u:
                u["sym"] = True
    fams = []
    qs = [(3, 2), (3, 3), (4, 2), (5, 2), (2, 5)] if tier == "quick" else \
         [(3, 2), (3, 3), (3, 4), (4, 2), (4, 3), (5, 2), (2, 5), (2, 6), (2, 7)]
    for n, q in qs:
        for f in (fam_staircase, fam_nested, fam_interleaved, fam_identical):
            s = f(n, q)
            if sum(len(u) for _, u in s["annotators"]) <= 14:
                fams.append(s)
    return U, fams


def make_shards(tier, purpose, nshards_per_universe=None, extra=None):
    U, fams = universes(tier, purpose)
    tasks = []
    from ..universe import size_G
    for u in U:
        sz = size_G(u["n"], u["k"], u["T"], u["labels"], segs=u.get("segs"))
        ns = nshards_per_universe or max(1, min(48, sz // 150))
        for s in range(ns):
            t = {"universe": u, "shard": s, "nshards": ns}
            if extra:
                t.update(extra)
            tasks.append(t)
    for i in range(0, len(fams), 2):
        t = {"families": fams[i:i + 2]}
        if extra:
            t.update(extra)
        tasks.append(t)
    return tasks


def dup_variant(spec, idx):
    """The same continuum reached by a different history: one unit is added twice (a duplicated CSV row, a merge
    of two continua sharing a unit).  The unit sets - hence every property's oracle - are unchanged."""
    anns = [[a, [list(u) for u in us]] for a, us in spec["annotators"]]
    nonempty = [i for i, (_, us) in enumerate(anns) if us]
    if not nonempty:
        return None
    i = nonempty[idx % len(nonempty)]
    us = anns[i][1]
    us.append(list(us[idx % len(us)]))
    return {"annotators": anns}


def iter_task_specs(task):
    from ..universe import iter_G
    if "universe" in task:
        u = task["universe"]
        dup_every = task.get("dup_every", 0)
        for idx, spec in iter_G(u["n"], u["k"], u["T"], u["labels"], shard=task["shard"], nshards=task["nshards"],
                                sym=u.get("sym", False), max_labels=u.get("max_labels"), names=u.get("names"),
                                segs=[tuple(x) for x in u["segs"]] if u.get("segs") else None):
            yield spec
            if dup_every and idx % dup_every == 0:
                d = dup_variant(spec, idx // dup_every)
                if d is not None:
                    yield d
    for spec in task.get("families", []):
        yield spec
    for spec in task.get("specs", []):
        yield spec


class DissimCache:
    """Library dissimilarity objects are built once per worker and recipe (each construction
    compiles a numba kernel); they are stateless w.r.t. the continua they are applied to."""

    def __init__(self):
        self.cache = {}

    def get(self, recipe):
        import json
        from ..spec import build_dissim
        key = json.dumps(recipe, sort_keys=True)
        if key not in self.cache:
            self.cache[key] = build_dissim(recipe)
        return self.cache[key]


DISSIMS = DissimCache()


def spec_label_set(spec):
    return sorted({u[2] for _, us in spec["annotators"] for u in us}, key=lambda x: (x is not None, x or ""))


# --------------------------------------------------------------------------- one case

CASE_DEADLINE = 60.0
_held = {}


WARM_KINDS = ("add", "remove", "add_annotator", "merge", "copy", "merge_out", "plus", "replace")


def warm_continuum(spec, warm, kind):
    """The same continuum reached through a non-initial state: a neighbouring continuum is built and aligned
    once (with another dissimilarity), then turned into `spec` by one mutator - add() of the missing unit,
    remove() of an extra unit, add_annotator() of a missing empty annotator, or an in-place merge().  Anything
    cached on the continuum and not invalidated by that mutator would survive into the run that is judged.
    warm = {"recipe": ..., "how": one of WARM_KINDS}"""
    from ..spec import build_continuum
    from pyannote.core import Segment
    how = warm.get("how", "add")
    anns = [[a, [list(u) for u in us]] for a, us in spec["annotators"]]
    nonempty = [i for i, (_, us) in enumerate(anns) if us]
    total = sum(len(us) for _, us in anns)

    def align(c):
        try:
            run_alignment(c, DISSIMS.get(warm["recipe"]), kind if kind != "fast" else "best", None)
        except Exception:  # noqa - the warm-up run is not judged
            pass

    if how == "copy":
        c0 = build_continuum(spec)
        align(c0)
        return c0.copy()
    if how in ("merge_out", "plus") and len(nonempty) >= 1 and total >= 2:
        # the continuum is the RESULT of an out-of-place merge of two parts (every annotator present in the left part)
        i = nonempty[-1]
        moved = anns[i][1][-1]
        left = build_continuum({"annotators": [[a, (us[:-1] if k == i else us)] for k, (a, us) in enumerate(anns)]})
        right = build_continuum({"annotators": [[anns[i][0], [moved]]]})
        align(left)
        return left.merge(right, in_place=False) if how == "merge_out" else left + right
    if how == "replace" and nonempty:
        # same annotators, same unit counts: one unit is swapped in place (remove + add) after the earlier alignment
        i = nonempty[-1]
        real = anns[i][1][-1]
        stand_in = [real[0] + 0.5, real[1] + 1.5, real[2]]  # close to the real one: it gets paired the same way, at another cost
        c = build_continuum({"annotators": [[a, (us[:-1] + [stand_in] if k == i else us)] for k, (a, us) in enumerate(anns)]})
        align(c)
        c.remove(anns[i][0], to_unit_(stand_in))
        c.add(anns[i][0], Segment(real[0], real[1]), real[2])
        return c
    if how == "remove" and nonempty:
        i = nonempty[0]
        extra = [57, 59, anns[i][1][0][2]]
        c = build_continuum({"annotators": [[a, us + ([extra] if k == i else [])] for k, (a, us) in enumerate(anns)]})
        align(c)
        c.remove(anns[i][0], to_unit_(extra))
        return c
    if how == "add_annotator":
        empty = [i for i, (_, us) in enumerate(anns) if not us]
        if empty and len(anns) - 1 >= 2:
            i = empty[-1]
            c = build_continuum({"annotators": [x for k, x in enumerate(anns) if k != i]})
            align(c)
            c.add_annotator(anns[i][0])
            return c
    if how == "merge" and len(nonempty) >= 1 and total >= 2:
        i = nonempty[-1]
        moved = anns[i][1][-1]
        rest = [[a, (us[:-1] if k == i else us)] for k, (a, us) in enumerate(anns)]
        c = build_continuum({"annotators": rest})
        align(c)
        c.merge(build_continuum({"annotators": [[anns[i][0], [moved]]]}), in_place=True)
        return c
    if total < 2 or not nonempty:
        return build_continuum(spec)
    i = nonempty[-1]
    last = anns[i][1].pop()
    c = build_continuum({"annotators": anns})
    align(c)
    c.add(anns[i][0], Segment(last[0], last[1]), last[2])
    return c


def to_unit_(u):
    from ..spec import to_unit
    return to_unit(u)


def eval_case(spec, recipe, backend, kind, window=None, warm=None, late=False):
    """Run the library on one case.  Returns dict(ok, nts, disorder, uds, solvers) or dict(ok=False, exc)."""
    from ..pool import deadline, CaseTimeout
    from ..spec import build_continuum
    set_backend(backend)
    try:
        with deadline(CASE_DEADLINE):
            c = build_continuum(spec) if warm is None else warm_continuum(spec, warm, kind)
            _state["calls"].clear()
            d = DISSIMS.get(recipe)
            al = run_alignment(c, d, kind, window)
            if late:
                # the alignment is first read after the caller went on editing the continuum it was computed from
                from pyannote.core import Segment
                c.add(sorted(a for a, _ in spec["annotators"])[0], Segment(70, 73), None)
                c.add_annotator("zz_late")
            nts, dis, uds = observe_alignment(al)
            # result stability: the alignment object returned by the PREVIOUS call is observed again
            prev_changed = None
            if _held.get("al") is not None:
                try:
                    again = observe_alignment(_held["al"])
                except Exception as e:  # noqa
                    again = f"{type(e).__name__}: {e}"
                if again != _held["obs"]:
                    prev_changed = {"before": _held["obs"], "after": again, "case": _held["case"]}
            _held.update(al=al, obs=(nts, dis, uds), case=case_dict(spec, recipe, backend, kind, window))
        return {"ok": True, "nts": nts, "disorder": dis, "uds": uds, "solvers": solver_calls(),
                "prev_changed": prev_changed}
    except CaseTimeout as e:
        return {"ok": False, "exc": f"TIMEOUT {e}", "timeout": True}
    except Exception as e:  # noqa
        return {"ok": False, "exc": f"{type(e).__name__}: {e}"}
    finally:
        set_backend("cbc")


def case_dict(spec, recipe, backend, kind, window=None):
    c = {"spec": spec, "recipe": recipe, "backend": backend, "kind": kind}
    if window is not None:
        c["window"] = window
    return c


def expected_solver(backend):
    import cvxpy as cp
    if backend == "cbc" and cbc_available():
        return [cp.CBC]
    if backend == "glpk_error" and cbc_available():
        return [cp.CBC, cp.GLPK_MI]
    return [cp.GLPK_MI]


def set_fault_plan(fail_at):
    """Fault enumeration: the CBC calls whose ordinal (1-based, since this call) is in fail_at raise SolverError."""
    install_backend_seam()
    _state["cbc_count"] = 0
    _state["fail_at"] = tuple(fail_at)


def cbc_calls_seen():
    return _state.get("cbc_count", 0)
