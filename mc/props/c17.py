"""C17 - alignment validity checks accept exactly partitions and covers.

E3 over candidate alignments: for every continuum of small universes, every multiset of at most
units+1 unitary alignments drawn from the full set of one-unit-or-empty combinations extended with
re-slotted ones (a unit placed in another annotator's slot), in several orders; Alignment.check,
SoftAlignment.check and construction with check_validity=True.
Oracle: occurrence counts of the continuum's own (annotator, unit) pairs.
"""
import itertools

from ..oracles import all_tuples
from ..runner import h
from ..spec import build_continuum, spec_by_annotator, to_unit
from ..universe import iter_G, size_G

ID = "C17"
TASK_TIMEOUT = 2700.0
META = {
    "rule": "case = (continuum, multiset of unitary alignments, order, class, entry point); non-trivial = distinct "
            "cases that are not valid partitions (dropped / duplicated / moved / re-slotted units); outcomes = distinct "
            "(own-count pattern, verdicts) pairs",
    "assumptions": ["a foreign (annotator, unit) slot occurring twice while every own unit occurs once, and "
                    "SoftAlignment.check on re-slotted units when nothing is missing, are unspecified"],
    "explanation": "explicit enumeration of continua x candidate alignments against an occurrence-count oracle",
}


def candidates(byann):
    """well-slotted combinations + re-slotted ones, as lists of (annotator, unit|None)"""
    names = [a for a, _ in byann]
    good = []
    for idx, mask, _ in all_tuples(byann, lambda u, v: 0.0, 1.0):
        good.append([(names[a], None if i is None else byann[a][1][i]) for a, i in enumerate(idx)])
    bad = []
    for a, (name, us) in enumerate(byann):
        for u in us:
            for b in range(len(names)):
                if b != a and u not in byann[b][1]:
                    nt = [(names[x], None) for x in range(len(names))]
                    nt[b] = (names[b], u)  # unit of `name` in the slot of another annotator
                    bad.append(nt)
    return good, bad[:4]


def verdict(fn):
    from pygamma_agreement.alignment import SetPartitionError
    try:
        fn()
        return "ok"
    except SetPartitionError:
        return "SetPartitionError"
    except Exception as e:  # noqa
        return type(e).__name__


def shards(tier, seed):
    # NEAR: distinct units whose usual text renderings coincide (6 significant digits / millisecond time stamps)
    NEAR = [[100000.1, 100000.9], [100000.2, 100000.9], [0.0001, 1], [0.0002, 1]]
    U = [dict(n=2, k=2, T=2, labels=["x"]), dict(n=3, k=1, T=2, labels=["x", "y"]),
         dict(n=2, k=2, T=2, labels=["x"], segs=NEAR)]
    if tier == "thorough":
        U += [dict(n=2, k=2, T=2, labels=["x", "y"]), dict(n=3, k=2, T=2, labels=["x"], sym=True)]
    tasks = []
    for u in U:
        # thorough: one continuum per shard in the largest universe (a single 6-unit continuum has ~10^7 cases)
        ns = max(1, min(48 if tier == "quick" else 96, size_G(u["n"], u["k"], u["T"], u["labels"], segs=u.get("segs")) // (6 if tier == "quick" else 4)))
        for s in range(ns):
            tasks.append({"universe": u, "shard": s, "nshards": ns, "tier": tier})
    return tasks


def orders(items):
    if len(items) <= 3:
        return [list(p) for p in itertools.permutations(items)]
    return [list(items), list(reversed(items)), list(items[1:]) + [items[0]]]


def run(task):
    from ..load import load
    pa = load()
    from pygamma_agreement.alignment import SoftAlignment
    res = {"evaluations": 0, "transitions": 0, "traces": 0, "state_set": [], "nontrivial": [], "outcomes": [],
           "samples": [], "violations": [], "unspecified": 0, "extra": {}}
    u = task["universe"]
    cap_size = 4 if task["tier"] == "quick" else 5
    for _, spec in iter_G(u["n"], u["k"], u["T"], u["labels"], shard=task["shard"], nshards=task["nshards"],
                          sym=u.get("sym", False), segs=[tuple(x) for x in u["segs"]] if u.get("segs") else None):
        byann = spec_by_annotator(spec)
        m = sum(len(us) for _, us in byann)
        own = {(a, x) for a, us in byann for x in us}
        c = build_continuum(spec)
        from pyannote.core import Segment as _Seg
        other_c = build_continuum(spec)
        other_c.add(byann[0][0], _Seg(30, 31), "other")  # a different continuum stored at construction
        good, bad = candidates(byann)
        pool = good + bad
        # ---- history on ONE continuum object: check, remove a unit, check again, add it back, check again
        if m >= 1:
            from pyannote.core import Segment as _Seg2
            names = [a for a, _ in byann]

            def singletons(units):
                return [pa.UnitaryAlignment([(b, (to_unit(x) if b == a else None)) for b in names]) for a, x in units]
            own_units = [(a, x) for a, us in byann for x in us]
            extra = (names[0], (60, 61, own_units[0][1][2]))
            c2 = build_continuum(spec)
            c2.add(extra[0], _Seg2(60, 61), extra[1][2])
            seq = [verdict(lambda: pa.Alignment(singletons(own_units + [extra])).check(c2))]
            c2.remove(extra[0], to_unit(extra[1]))
            seq.append(verdict(lambda: pa.Alignment(singletons(own_units)).check(c2)))
            seq.append(verdict(lambda: pa.Alignment(singletons(own_units), continuum=c2, check_validity=True)))
            c2.add(extra[0], _Seg2(60, 61), extra[1][2])
            seq.append(verdict(lambda: pa.Alignment(singletons(own_units)).check(c2)))
            res["evaluations"] += 4
            res["transitions"] += 6
            res["traces"] += 4
            if seq != ["ok", "ok", "ok", "SetPartitionError"]:
                res["violations"].append({
                    "msg": f"check() across a history of one continuum (full partition / after remove() / at construction / "
                           f"after add()): verdicts {seq}, expected ok, ok, ok, SetPartitionError",
                    "case": {"spec": spec, "nts": [], "point": "history"}, "sig": h(["hist", seq])})
        # ---- a continuum that has annotators but NO unit, passed explicitly: every own unit (there is none) occurs
        #      exactly once, so any alignment without a repeated couple is accepted - judged against THAT continuum
        empty_c = pa.Continuum()
        for a, _ in byann:
            empty_c.add_annotator(a)
        if good:
            for stored in (None, c, other_c):
                for nts_idx in ([0], [0, 1] if len(good) > 1 else [0]):
                    def mk():
                        return [pa.UnitaryAlignment([(a, None if x is None else to_unit(x)) for a, x in good[i]])
                                for i in nts_idx]
                    couples = [(a, x) for i in nts_idx for a, x in good[i] if x is not None]
                    if len(set(couples)) != len(couples):
                        continue  # a foreign couple twice: unspecified
                    g = verdict(lambda: pa.Alignment(mk(), continuum=stored).check(empty_c))
                    g2 = verdict(lambda: SoftAlignment(mk(), continuum=stored).check(empty_c))
                    res["evaluations"] += 2
                    res["transitions"] += 2
                    res["traces"] += 2
                    for point, gg in (("hard.check(empty)", g), ("soft.check(empty)", g2)):
                        if point.startswith("soft") and gg != "ok":
                            continue  # foreign slots in a soft check: unspecified
                        if gg != "ok":
                            res["violations"].append({
                                "msg": f"{point}: {gg} for an alignment checked against an explicitly passed continuum that has "
                                       f"annotators but no unit (stored continuum: {'none' if stored is None else 'another one'})",
                                "case": {"spec": spec, "nts": [good[i] for i in nts_idx], "point": point},
                                "sig": h([point, gg, len(res["violations"]) // 2])})
        uas_cache = {}
        for size in range(1, min(m + 1, cap_size) + 1):
            for combo in itertools.combinations_with_replacement(range(len(pool)), size):
                counts = {}
                foreign = {}
                for i in combo:
                    for a, x in pool[i]:
                        if x is None:
                            continue
                        if (a, x) in own:
                            counts[(a, x)] = counts.get((a, x), 0) + 1
                        else:
                            foreign[(a, x)] = foreign.get((a, x), 0) + 1
                missing = any(counts.get(t, 0) == 0 for t in own)
                twice = any(v >= 2 for v in counts.values())
                if missing or twice:
                    want_hard = "SetPartitionError"
                elif any(v >= 2 for v in foreign.values()):
                    want_hard = None  # unspecified
                else:
                    want_hard = "ok"
                if missing:
                    want_soft = "SetPartitionError"
                elif foreign:
                    want_soft = None
                else:
                    want_soft = "ok"
                key = h([spec, combo])
                res["state_set"].append(key)
                if want_hard != "ok":
                    res["nontrivial"].append(key)
                seen_v = set()
                variants = [(o, False) for o in orders(list(combo))]
                # a unitary alignment is a set of (annotator, unit) couples: listing the annotators in another
                # order inside SOME of the unitary alignments must not change any verdict
                variants += [(variants[0][0], True), (variants[-1][0], True)]
                for order, flip in variants:
                    def uas():
                        return [pa.UnitaryAlignment([(a, None if x is None else to_unit(x))
                                                     for a, x in (pool[i][::-1] if (flip and k % 2 == 1) else pool[i])])
                                for k, i in enumerate(order)]
                    got = {
                        "hard.check": verdict(lambda: pa.Alignment(uas(), continuum=c).check()),
                        "hard.check(c)": verdict(lambda: pa.Alignment(uas()).check(c)),
                        # the continuum passed explicitly wins over the one stored at construction
                        "hard.check(c)|other stored": verdict(lambda: pa.Alignment(uas(), continuum=other_c).check(c)),
                        "hard.ctor": verdict(lambda: pa.Alignment(uas(), continuum=c, check_validity=True)),
                        "soft.check": verdict(lambda: SoftAlignment(uas(), continuum=c).check()),
                        "soft.ctor": verdict(lambda: SoftAlignment(uas(), continuum=c, check_validity=True)),
                    }
                    res["evaluations"] += 6
                    res["transitions"] += 6
                    res["traces"] += 6
                    for point, g in got.items():
                        want = want_hard if point.startswith("hard") else want_soft
                        if want is None:
                            res["unspecified"] += 1
                            continue
                        if point.startswith("soft") and want == "SetPartitionError" and foreign and g != "ok":
                            continue  # a missing unit must make the soft check fail; with foreign slots any error does
                        if g != want:
                            res["violations"].append({
                                "msg": f"{point}: {g} but own-unit counts {sorted(counts.values())} "
                                       f"({'missing' if missing else 'none missing'}, "
                                       f"{'repeated' if twice else 'none repeated'}) demand {want}",
                                "case": {"spec": spec, "nts": [(pool[i][::-1] if (flip and k % 2 == 1) else pool[i])
                                                               for k, i in enumerate(order)], "point": point},
                                "sig": h([point, g, want, missing, twice, len(combo), len(res["violations"]) // 3])})
                    seen_v.add(h(got))
                if want_hard == "ok" and size <= 3:
                    # call history on ONE object: valid for this continuum, then checked against a continuum with
                    # one more unit (must be refused), then against the first again (must be accepted again)
                    from pyannote.core import Segment
                    al = pa.Alignment([pa.UnitaryAlignment([(a, None if x is None else to_unit(x)) for a, x in pool[i]])
                                       for i in combo])
                    bigger = build_continuum(spec)
                    bigger.add(byann[0][0], Segment(40, 41), "extra")
                    seq = [verdict(lambda: al.check(c)), verdict(lambda: al.check(bigger)), verdict(lambda: al.check(c))]
                    res["evaluations"] += 3
                    res["transitions"] += 3
                    res["traces"] += 3
                    if seq != ["ok", "SetPartitionError", "ok"]:
                        res["violations"].append({
                            "msg": f"one alignment object checked against (its continuum, a continuum with one more "
                                   f"unit, its continuum): verdicts {seq}, expected ok / SetPartitionError / ok",
                            "case": {"spec": spec, "nts": [pool[i] for i in combo], "point": "hard.check(c)"},
                            "sig": h(["seq", seq, len(res["violations"]) // 3])})
                res["outcomes"].append(h([sorted(counts.values()), sorted(seen_v)]))
                if len(seen_v) > 1:
                    # same multiset, different verdicts in different orders (only counted if not already reported)
                    pass
                if len(res["samples"]) < 2 and twice and not missing and size >= 3:
                    res["samples"].append({"continuum": spec, "unitary_alignments": [pool[i] for i in combo],
                                           "expected": {"hard": want_hard, "soft": want_soft}})
    res["violations"] = res["violations"][:40]
    return res


def _other(spec):
    from pyannote.core import Segment
    o = build_continuum(spec)
    o.add(spec_by_annotator(spec)[0][0], Segment(30, 31), "other")
    return o


def _empty(byann):
    from ..load import load
    e = load().Continuum()
    for a, _ in byann:
        e.add_annotator(a)
    return e


def replay(case):
    from ..load import load
    pa = load()
    from pygamma_agreement.alignment import SoftAlignment
    spec = case["spec"]
    byann = spec_by_annotator(spec)
    own = {(a, x) for a, us in byann for x in us}
    c = build_continuum(spec)
    nts = [[(a, None if x is None else tuple(x)) for a, x in nt] for nt in case["nts"]]
    counts, foreign = {}, {}
    for nt in nts:
        for a, x in nt:
            if x is None:
                continue
            d = counts if (a, x) in own else foreign
            d[(a, x)] = d.get((a, x), 0) + 1
    missing = any(counts.get(t, 0) == 0 for t in own)
    twice = any(v >= 2 for v in counts.values())
    hard = "SetPartitionError" if (missing or twice) else (None if any(v >= 2 for v in foreign.values()) else "ok")
    soft = "SetPartitionError" if missing else (None if foreign else "ok")

    def uas():
        return [pa.UnitaryAlignment([(a, None if x is None else to_unit(x)) for a, x in nt]) for nt in nts]
    point = case["point"]
    fn = {"hard.check": lambda: pa.Alignment(uas(), continuum=c).check(),
          "hard.check(c)": lambda: pa.Alignment(uas()).check(c),
          "hard.check(c)|other stored": lambda: pa.Alignment(uas(), continuum=_other(spec)).check(c),
          "hard.check(empty)": lambda: pa.Alignment(uas()).check(_empty(byann)),
          "soft.check(empty)": lambda: SoftAlignment(uas()).check(_empty(byann)),
          "hard.ctor": lambda: pa.Alignment(uas(), continuum=c, check_validity=True),
          "soft.check": lambda: SoftAlignment(uas(), continuum=c).check(),
          "soft.ctor": lambda: SoftAlignment(uas(), continuum=c, check_validity=True)}[point]
    want = hard if point.startswith("hard") else soft
    if point.endswith("(empty)"):
        want = "ok"
    g = verdict(fn)
    if point.startswith("soft") and want == "SetPartitionError" and foreign and g != "ok":
        return []
    if want is not None and g != want:
        return [{"msg": f"{point}: {g} but the oracle demands {want}", "case": case}]
    return []
