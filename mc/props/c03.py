"""C03 - disorder values follow the definition.

E3 over alignments: for every continuum of bounded universes, every partition into unitary
alignments (own enumerator, capped) plus the library's best / soft / fast alignments; slot order
inside unitary alignments permuted; with and without an attached continuum; x dissimilarities.
Checked equal: the disorder carried by library alignments, the per-unitary disorders they carry,
Alignment.compute_disorder, the per-unitary disorders it stores, the lazily summed
Alignment.disorder, UnitaryAlignment.compute_disorder, and the float64 definition.
"""
import itertools

from . import _align as A
from .c12 import all_alignments, lib_alignment
from ..oracles import pair_fn, unitary_disorder, close
from ..runner import h
from ..spec import build_continuum, spec_by_annotator, to_unit
from ..universe import size_G

ID = "C03"
TASK_TIMEOUT = 1200.0
META = {
    "rule": "case = (alignment, slot permutation, attached continuum or not, dissimilarity, observation point); "
            "non-trivial = distinct cases whose alignment has a unitary alignment with >= 2 real units and one with an "
            "empty slot; outcomes = distinct alignment disorders",
    "assumptions": ["float32 vs float64 within 1e-4 relative", "mean number of units per annotator taken from the "
                    "definition (units / annotators)"],
    "explanation": "explicit enumeration of bounded continua x all their alignments x observation points against "
                   "the definition",
}
KNOWN_KEY = "unitary-compute-disorder-scale"


def recipes(labels, tier):
    D = [{"k": "pos", "de": 1.0}, {"k": "pos", "de": 0.35}, {"k": "comb", "a": 1.0, "b": 1.0, "de": 1.0},
         {"k": "comb", "a": 3.0, "b": 2.0, "de": 0.5}, {"k": "abs", "de": 1.0}]
    if tier == "quick":
        D = [D[1], D[2], D[3]]
    # one weight is 0 and the other is not 1: the remaining term keeps its weight
    D += [{"k": "comb", "a": 0.0, "b": 2.0, "de": 0.5}]
    if tier != "quick":
        D += [{"k": "comb", "a": 3.0, "b": 0.0, "de": 1.0}]
    names = sorted(l for l in labels if l is not None)
    if None not in labels and names:
        D.append({"k": "comb", "a": 1.0, "b": 1.0, "de": 2.0, "cat": {"k": "ord", "labels": ["x", "y"]}})
    return D


def definition(nts, recipe, n_units_total, n_ann):
    d, de = pair_fn(recipe)
    uds = [unitary_disorder([u for _, u in sorted(nt, key=lambda t: t[0])], d, de) for nt in nts]
    return uds, sum(uds) / (n_units_total / n_ann)


def shards(tier, seed):
    XY = ["x", "y"]
    U = [dict(n=2, k=2, T=2, labels=XY), dict(n=2, k=2, T=2, labels=[None, "x"]), dict(n=3, k=1, T=2, labels=XY),
         dict(n=3, k=2, T=2, labels=["x"]), dict(n=4, k=1, T=2, labels=["x", None]), dict(n=5, k=1, T=1, labels=XY)]
    if tier == "thorough":
        U += [dict(n=2, k=2, T=3, labels=XY), dict(n=3, k=2, T=2, labels=XY, sym=True), dict(n=4, k=1, T=2, labels=XY)]
    tasks = [{"far": {"t0": t0, "step": st, "universe": fu}, "tier": tier}
             for t0 in FAR_T0[: 2 if tier == "quick" else 4] for st in (0.3, 0.7)
             for fu in (FAR_U_QUICK if tier == "quick" else FAR_U)]
    for u in U:
        ns = max(1, min(40, size_G(u["n"], u["k"], u["T"], u["labels"]) // 40))
        for s in range(ns):
            tasks.append({"universe": u, "shard": s, "nshards": ns, "tier": tier, "dup_every": 3})
    return tasks


# times far from the origin and not representable in single precision: the float64 definition is out of reach of
# float32 storage there, but the values the library carries and the values it recomputes from the same units must
# still agree with each other (same stored precision on both paths)
FAR_T0 = [250000.1, 50000.3, 1.0e6 + 0.7, 7777.77]
FAR_U = [dict(n=2, k=2, T=3, labels=["x", "y"], sym=True), dict(n=3, k=1, T=3, labels=["x"])]
FAR_U_QUICK = [dict(n=2, k=2, T=2, labels=["x", "y"], sym=True)]
FAR_TOL = 2e-5


def run_far(task, res, pa):
    from ..universe import iter_G
    f = task["far"]
    u = f["universe"]
    t0, st = f["t0"], f["step"]
    for _, spec0 in iter_G(u["n"], u["k"], u["T"], u["labels"], sym=u.get("sym", False)):
        spec = {"annotators": [[a, [[t0 + st * s_, t0 + st * e_, lab] for s_, e_, lab in us]] for a, us in spec0["annotators"]]}
        c = build_continuum(spec)
        for recipe in ({"k": "pos", "de": 1.0}, {"k": "comb", "a": 3.0, "b": 2.0, "de": 0.5}):
            d = A.DISSIMS.get(recipe)
            for kind, window in (("best", None), ("soft", None), ("fast", 1)):
                obs = A.eval_case(spec, recipe, "cbc" if A.cbc_available() else "glpk_noimport", kind, window)
                res["evaluations"] += 1
                res["transitions"] += 2
                if not obs["ok"]:
                    continue
                res["traces"] += 1
                key = h(["far", spec, recipe, kind])
                res["state_set"].append(key)
                case = {"spec": spec, "recipe": recipe, "point": f"far {kind} w={window}", "nts": obs["nts"]}
                try:
                    al = lib_alignment(pa, obs["nts"], c)
                    got = float(al.compute_disorder(d))
                    stored = [float(ua.disorder) for ua in al.unitary_alignments]
                except Exception as e:  # noqa
                    res["violations"].append({"msg": f"recomputing the {kind} alignment's disorder raised {type(e).__name__}: {e}",
                                              "case": case, "sig": h(["far-raise", kind])})
                    continue
                bad = not close(got, obs["disorder"], FAR_TOL) or \
                    any(x is None or not close(x, y, FAR_TOL) for x, y in zip(obs["uds"], stored))
                if bad:
                    res["violations"].append({"msg": f"the {kind} alignment carries disorder {obs['disorder']} / {obs['uds']} but "
                                                     f"recomputing from its units gives {got} / {stored} (times near {t0})",
                                              "case": case, "sig": h(["far", kind, recipe, len(res["violations"]) // 4])})
                else:
                    res["outcomes"].append(round(got, 5))
                    if any(sum(1 for _, x in nt if x is not None) >= 2 for nt in obs["nts"]) and got > 0:
                        res["nontrivial"].append(key)
    return res


def perms_for(n, idx):
    allp = list(itertools.permutations(range(n)))
    if n <= 2:
        return allp
    # identity + two rotating through all permutations by case index
    return [allp[0], allp[(1 + idx) % len(allp)], allp[(1 + 7 * idx) % len(allp)]]


def run(task):
    from ..load import load
    pa = load()
    res = {"evaluations": 0, "transitions": 0, "traces": 0, "state_set": [], "nontrivial": [], "outcomes": [],
           "samples": [], "violations": [], "unspecified": 0, "extra": {}}
    tier = task["tier"]
    cap = 6 if tier == "quick" else 24
    idx = 0
    if "far" in task:
        return run_far(task, res, pa)

    def report(msg, case, known=None):
        if known:
            res["extra"]["known_finding_occurrences"] = res["extra"].get("known_finding_occurrences", 0) + 1
            if res["extra"]["known_finding_occurrences"] > 20:
                return
        res["violations"].append({"msg": msg, "case": case, "known": known,
                                  "sig": h([msg.split(":")[0], case.get("point"), len(case["nts"]),
                                            case["recipe"], known, len(res["violations"]) // 4])})

    for spec in A.iter_task_specs(task):
        byann = spec_by_annotator(spec)
        n = len(byann)
        m = sum(len(us) for _, us in byann)
        labels = A.spec_label_set(spec)
        c = build_continuum(spec)
        enum = all_alignments(byann, cap)
        # ---- call histories: ONE alignment object recomputed with every dissimilarity, forwards and backwards
        #      (a value cached on the alignment under a too coarse key would be observed)
        rl = recipes(labels, tier)
        for nts in enum[:2]:
            for attach in (True, False):
                al = lib_alignment(pa, nts, c if attach else None)
                for recipe in rl + rl[::-1][1:]:
                    uds, tot = definition(nts, recipe, m, n)
                    res["evaluations"] += 1
                    res["transitions"] += 1
                    res["traces"] += 1
                    case = {"spec": spec, "recipe": recipe, "nts": nts, "attach": attach,
                            "point": "Alignment.compute_disorder"}
                    try:
                        got = float(al.compute_disorder(A.DISSIMS.get(recipe)))
                        stored = [float(ua.disorder) for ua in al.unitary_alignments]
                    except Exception as e:  # noqa
                        report(f"Alignment.compute_disorder raised on a re-used alignment object: {type(e).__name__}: {e}", case)
                        break
                    if not close(got, tot) or any(not close(x, y) for x, y in zip(stored, uds)):
                        report(f"Alignment.compute_disorder on an alignment object already evaluated with other "
                               f"dissimilarities: {got} / {stored} but the definition gives {tot} / {uds}", case)
                        break
        for recipe in recipes(labels, tier):
            d = A.DISSIMS.get(recipe)
            # ---- library alignments: carried values
            maxw = -(-m // n) + 1
            plan = [("best", None, "cbc"), ("soft", None, "cbc")] + [("fast", w, "cbc") for w in range(1, min(maxw, 2) + 1)]
            cidx = len(res["state_set"]) + len(enum)
            if cidx % 3 == 0:  # the fall-back configurations on every third (continuum, recipe)
                plan += [("best", None, "glpk_noimport"), ("soft", None, "glpk_error"), ("fast", 1, "glpk_noimport")]
            plan = [(k_, w_, b_, None) for k_, w_, b_ in plan]
            hk = len(res["state_set"])
            if hk % 2 == 0:
                plan += [("best", None, "cbc", {"recipe": recipe, "how": A.WARM_KINDS[(hk // 2) % len(A.WARM_KINDS)]}),
                         ("soft", None, "cbc", {"recipe": recipe, "how": A.WARM_KINDS[(hk // 2 + 3) % len(A.WARM_KINDS)]})]
            for kind, window, backend, warm in plan:
                late = warm is None and backend == "cbc" and (hk + len(kind)) % 3 == 0
                obs = A.eval_case(spec, recipe, backend if A.cbc_available() else "glpk_noimport", kind, window, warm=warm,
                                  late=late)
                res["evaluations"] += 1
                res["transitions"] += 1
                if not obs["ok"]:
                    continue
                res["traces"] += 1
                if obs.get("prev_changed"):
                    pc = obs["prev_changed"]
                    report(f"an alignment returned earlier carries other values after a later alignment computation: "
                           f"disorder {pc['before'][1]} -> {pc['after'][1] if not isinstance(pc['after'], str) else pc['after']}",
                           {"spec": spec, "recipe": recipe, "point": "sequence", "nts": obs["nts"],
                            "sequence": [pc["case"], A.case_dict(spec, recipe, "cbc", kind, window)]})
                uds, tot = definition(obs["nts"], recipe, m, n)
                case = {"spec": spec, "recipe": recipe, "point": f"library {kind} w={window}", "nts": obs["nts"],
                        "backend": backend, "warm": warm, "late": late}
                if not close(obs["disorder"], tot):
                    report(f"disorder carried by the {kind} alignment: {obs['disorder']} but its units give {tot}", case)
                elif any(x is None or not close(x, y) for x, y in zip(obs["uds"], uds)):
                    report(f"per-unitary disorders carried by the {kind} alignment: {obs['uds']} but the definition "
                           f"gives {uds}", case)
            # ---- hand-built alignments: recomputation
            for nts in enum:
                idx += 1
                uds, tot = definition(nts, recipe, m, n)
                key = h([nts, recipe])
                res["state_set"].append(key)
                res["outcomes"].append(round(tot, 5))
                has_multi = any(sum(1 for _, u in nt if u is not None) >= 2 for nt in nts)
                has_empty = any(any(u is None for _, u in nt) for nt in nts)
                if has_multi and has_empty:
                    res["nontrivial"].append(key)
                    if len(res["samples"]) < 2:
                        res["samples"].append({"alignment": nts, "dissimilarity": recipe, "definition_disorder": tot,
                                               "unitary_disorders": uds})
                for perm in perms_for(n, idx):
                    pnts = [[nt[i] for i in perm] for nt in nts]
                    for attach in (True, False):
                        al = lib_alignment(pa, pnts, c if attach else None)
                        res["evaluations"] += 1
                        res["transitions"] += 2
                        res["traces"] += 1
                        case = {"spec": spec, "recipe": recipe, "nts": pnts, "attach": attach,
                                "point": "Alignment.compute_disorder"}
                        try:
                            got = float(al.compute_disorder(d))
                            stored = [float(ua.disorder) for ua in al.unitary_alignments]
                            cached = float(al.disorder)
                            al2 = lib_alignment(pa, pnts, c if attach else None)
                            for ua, v in zip(al2.unitary_alignments, stored):
                                ua.disorder = v
                            lazy = float(al2.disorder)
                        except Exception as e:  # noqa
                            report(f"Alignment.compute_disorder raised: {type(e).__name__}: {e}", case)
                            continue
                        if not close(got, tot):
                            report(f"Alignment.compute_disorder: {got} but the definition gives {tot} "
                                   f"(slot order {perm}, continuum attached: {attach})", case)
                        elif any(not close(x, y) for x, y in zip(stored, uds)):
                            report(f"per-unitary disorders stored by compute_disorder: {stored} vs definition {uds}", case)
                        elif not close(cached, got) or not close(lazy, tot):
                            report(f"Alignment.disorder: cached {cached}, summed from unitary disorders {lazy}, "
                                   f"definition {tot}", case)
                # ---- UnitaryAlignment.compute_disorder (first slot order and a reversed one)
                for nt, ud in zip(nts, uds):
                    for order in (nt, list(reversed(nt))):
                        ua = pa.UnitaryAlignment([(a, None if u is None else to_unit(u)) for a, u in order])
                        res["evaluations"] += 1
                        res["transitions"] += 1
                        res["traces"] += 1
                        case = {"spec": spec, "recipe": recipe, "nts": [order], "point": "UnitaryAlignment.compute_disorder"}
                        try:
                            got = float(ua.compute_disorder(d))
                        except Exception as e:  # noqa
                            report(f"UnitaryAlignment.compute_disorder raised: {type(e).__name__}: {e}", case)
                            continue
                        if not close(got, ud):
                            k = sum(1 for _, u in order if u is not None)
                            known = KNOWN_KEY if (k < n and close(got, ud * n / k)) else None
                            report(f"UnitaryAlignment.compute_disorder: {got} but the definition gives {ud} "
                                   f"({k} real units of {n} annotators)", case, known)
    return res


def replay(case):
    from ..load import load
    pa = load()
    spec, recipe = case["spec"], case["recipe"]
    byann = spec_by_annotator(spec)
    n = len(byann)
    m = sum(len(us) for _, us in byann)
    d = A.DISSIMS.get(recipe)
    nts = [[(a, None if u is None else tuple(u)) for a, u in nt] for nt in case["nts"]]
    out = []
    if case["point"] == "UnitaryAlignment.compute_disorder":
        dd, de = pair_fn(recipe)
        ud = unitary_disorder([u for _, u in sorted(nts[0], key=lambda t: t[0])], dd, de)
        got = float(pa.UnitaryAlignment([(a, None if u is None else to_unit(u)) for a, u in nts[0]]).compute_disorder(d))
        if not close(got, ud):
            k = sum(1 for _, u in nts[0] if u is not None)
            out.append({"msg": f"UnitaryAlignment.compute_disorder: {got} but the definition gives {ud}",
                        "known": KNOWN_KEY if (k < n and close(got, ud * n / k)) else None, "case": case})
    elif case["point"] == "sequence":
        A._held.clear()
        first, second = case["sequence"]
        A.eval_case(first["spec"], first["recipe"], first["backend"], first["kind"], first.get("window"))
        o2 = A.eval_case(second["spec"], second["recipe"], second["backend"], second["kind"], second.get("window"))
        if o2.get("prev_changed"):
            out.append({"msg": "an alignment returned earlier changed after a later alignment computation", "case": case})
    elif case["point"].startswith("far"):
        _, kind, w = case["point"].split(" ")
        window = None if w == "w=None" else int(w[2:])
        obs = A.eval_case(spec, recipe, "cbc" if A.cbc_available() else "glpk_noimport", kind, window)
        if obs["ok"]:
            al = lib_alignment(pa, obs["nts"], build_continuum(spec))
            got = float(al.compute_disorder(d))
            stored = [float(ua.disorder) for ua in al.unitary_alignments]
            if not close(got, obs["disorder"], FAR_TOL) or any(x is None or not close(x, y, FAR_TOL) for x, y in zip(obs["uds"], stored)):
                out.append({"msg": f"{kind} alignment carries {obs['disorder']} / {obs['uds']}, recomputed {got} / {stored}",
                            "case": case})
    elif case["point"].startswith("library"):
        _, kind, w = case["point"].split(" ")
        window = None if w == "w=None" else int(w[2:])
        obs = A.eval_case(spec, recipe, case.get("backend", "cbc"), kind, window, warm=case.get("warm"),
                          late=case.get("late", False))
        if obs["ok"]:
            uds, tot = definition(obs["nts"], recipe, m, n)
            if not close(obs["disorder"], tot) or any(x is None or not close(x, y) for x, y in zip(obs["uds"], uds)):
                out.append({"msg": f"{kind} alignment carries {obs['disorder']} / {obs['uds']}, definition {tot} / {uds}",
                            "case": case})
    else:
        uds, tot = definition(nts, recipe, m, n)
        c = build_continuum(spec)
        al = lib_alignment(pa, nts, c if case.get("attach") else None)
        got = float(al.compute_disorder(d))
        stored = [float(ua.disorder) for ua in al.unitary_alignments]
        if not close(got, tot) or any(not close(x, y) for x, y in zip(stored, uds)):
            out.append({"msg": f"Alignment.compute_disorder: {got} / {stored}, definition {tot} / {uds}", "case": case})
    return out
