"""A small fork-based worker pool whose stuck workers can be killed.

The parent imports the code under test once (numba compilation ~10 s), workers are
forked from it.  Every worker redirects fd 1 to /dev/null (GLPK prints to the C-level
stdout; protocol lines are printed by the parent only).  A task that does not finish
within `task_timeout` seconds gets its worker killed and is reported as ("hang", task).
"""
import multiprocessing as mp
import os
import signal
import time
import traceback
from multiprocessing.connection import wait as conn_wait


class CaseTimeout(Exception):
    pass


class deadline:
    """Python-level watchdog for one case (SIGALRM; main thread of a worker only)."""

    def __init__(self, seconds):
        self.seconds = seconds

    def _handler(self, signum, frame):
        raise CaseTimeout(f"no return within {self.seconds}s")

    def __enter__(self):
        self.old = signal.signal(signal.SIGALRM, self._handler)
        signal.setitimer(signal.ITIMER_REAL, self.seconds)
        return self

    def __exit__(self, *exc):
        signal.setitimer(signal.ITIMER_REAL, 0)
        signal.signal(signal.SIGALRM, self.old)
        return False


def _worker_main(conn, func, init):
    try:
        devnull = os.open(os.devnull, os.O_WRONLY)
        os.dup2(devnull, 1)
        if init is not None:
            init()
        while True:
            msg = conn.recv()
            if msg is None:
                break
            idx, task = msg
            try:
                res = func(task)
                conn.send((idx, "ok", res))
            except BaseException as e:  # noqa
                conn.send((idx, "error", "".join(traceback.format_exception(type(e), e, e.__traceback__))))
    except (EOFError, KeyboardInterrupt):
        pass
    finally:
        os._exit(0)


class Pool:
    def __init__(self, func, nproc=None, init=None, task_timeout=600.0):
        self.func = func
        self.init = init
        self.nproc = nproc or int(os.environ.get("VERIF_NPROC", os.cpu_count() or 4))
        self.task_timeout = task_timeout
        self.ctx = mp.get_context("fork")
        self.workers = []

    def _spawn(self):
        parent, child = self.ctx.Pipe()
        p = self.ctx.Process(target=_worker_main, args=(child, self.func, self.init), daemon=True)
        p.start()
        child.close()
        return {"proc": p, "conn": parent, "task": None, "since": None}

    def run(self, tasks):
        """Yield (index, status, payload) in completion order; status in ok|error|hang."""
        tasks = list(tasks)
        n = min(self.nproc, max(1, len(tasks)))
        self.workers = [self._spawn() for _ in range(n)]
        nxt = 0
        done = 0
        try:
            for w in self.workers:
                if nxt < len(tasks):
                    w["conn"].send((nxt, tasks[nxt]))
                    w["task"], w["since"] = nxt, time.time()
                    nxt += 1
            while done < len(tasks):
                busy = [w for w in self.workers if w["task"] is not None]
                ready = conn_wait([w["conn"] for w in busy], timeout=1.0)
                now = time.time()
                for w in busy:
                    if w["conn"] in ready:
                        try:
                            idx, status, payload = w["conn"].recv()
                        except (EOFError, ConnectionResetError):
                            idx, status, payload = w["task"], "error", "worker died (signal / os._exit)"
                            self._replace(w)
                        done += 1
                        w["task"] = None
                        yield idx, status, payload
                        if nxt < len(tasks):
                            w["conn"].send((nxt, tasks[nxt]))
                            w["task"], w["since"] = nxt, time.time()
                            nxt += 1
                    elif now - w["since"] > self.task_timeout:
                        idx = w["task"]
                        self._replace(w)
                        done += 1
                        yield idx, "hang", f"no result within {self.task_timeout}s"
                        if nxt < len(tasks):
                            w["conn"].send((nxt, tasks[nxt]))
                            w["task"], w["since"] = nxt, time.time()
                            nxt += 1
        finally:
            self.close()

    def _replace(self, w):
        try:
            w["proc"].kill()
            w["proc"].join(5)
        except Exception:
            pass
        try:
            w["conn"].close()
        except Exception:
            pass
        new = self._spawn()
        w.update(new)
        w["task"] = None

    def close(self):
        for w in self.workers:
            try:
                if w["proc"].is_alive():
                    try:
                        w["conn"].send(None)
                    except Exception:
                        pass
            except Exception:
                pass
        for w in self.workers:
            try:
                w["proc"].join(2)
                if w["proc"].is_alive():
                    w["proc"].kill()
                    w["proc"].join(2)
                w["conn"].close()
            except Exception:
                pass
        self.workers = []
