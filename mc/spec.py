"""JSON-able descriptions of inputs, and how they become library objects.

continuum spec : {"annotators": [[name, [[start, end, label|None], ...]], ...]}
                 (annotators are created with add_annotator in the listed order, units
                 added in the listed order - so empty annotators exist)
dissimilarity  : {"k": "pos", "de": 1.0}
                 {"k": "abs", "de": 1.0}
                 {"k": "pre"|"lev"|"ord"|"num", "labels": [...], "p": [...]?, "matrix": [[...]]?, "de": 1.0}
                 {"k": "comb", "a": 1, "b": 1, "de": 1, "cat": <categorical recipe or None>,
                  "pos": <positional recipe or None>}
"""
from .load import load


def cont(*annotators):
    """cont(("a", [(0, 1, "x")]), ("b", [])) -> spec"""
    return {"annotators": [[name, [list(u) for u in units]] for name, units in annotators]}


def spec_units(spec):
    """[(annotator, (s, e, label)), ...] in the library's documented order."""
    out = []
    for name, units in sorted(spec["annotators"], key=lambda t: t[0]):
        for u in sorted({(u[0], u[1], u[2]) for u in units}, key=unit_key):
            out.append((name, u))
    return out


def unit_key(u):
    # documented strict total order: start, end, then label, unlabelled first
    return (u[0], u[1], (0, "") if u[2] is None else (1, u[2]))


def spec_by_annotator(spec):
    """sorted list of (annotator, sorted list of distinct units)"""
    d = {}
    for name, units in spec["annotators"]:
        d.setdefault(name, set()).update((u[0], u[1], u[2]) for u in units)
    return [(name, sorted(d[name], key=unit_key)) for name in sorted(d)]


def spec_labels(spec):
    return sorted({u[2] for _, units in spec["annotators"] for u in units if u[2] is not None})


def build_continuum(spec):
    pa = load()
    from pyannote.core import Segment
    c = pa.Continuum()
    for name, units in spec["annotators"]:
        c.add_annotator(name)
        for s, e, lab in units:
            c.add(name, Segment(s, e), lab)
    return c


def to_unit(u):
    pa = load()
    from pyannote.core import Segment
    return pa.Unit(Segment(u[0], u[1]), u[2])


def from_unit(unit):
    if unit is None:
        return None
    return (unit.segment.start, unit.segment.end, unit.annotation)


def continuum_to_spec(c):
    """Observable content of a library continuum as a spec (annotators incl. empty ones)."""
    return {"annotators": [[a, [list(from_unit(u)) for u in c._annotations[a]]] for a in c.annotators]}


def build_dissim(r):
    pa = load()
    import numpy as np
    from sortedcontainers import SortedSet
    k = r["k"]
    de = r.get("de", 1.0)
    if k == "pos":
        return pa.PositionalSporadicDissimilarity(delta_empty=de)
    if k == "abs":
        return pa.AbsoluteCategoricalDissimilarity(delta_empty=de)
    if k == "pre":
        return pa.PrecomputedCategoricalDissimilarity(SortedSet(r["labels"]),
                                                      np.array(r["matrix"], dtype=np.float32), delta_empty=de)
    if k == "lev":
        return pa.LevenshteinCategoricalDissimilarity(list(r["labels"]), delta_empty=de)
    if k == "ord":
        p = r.get("p")
        if p is None:
            return pa.OrdinalCategoricalDissimilarity(list(r["labels"]), delta_empty=de)
        return pa.OrdinalCategoricalDissimilarity(list(r["labels"]), p=list(p), delta_empty=de)
    if k == "num":
        return pa.NumericalCategoricalDissimilarity(list(r["labels"]), delta_empty=de)
    if k == "comb":
        kw = dict(alpha=r.get("a", 1.0), beta=r.get("b", 1.0), delta_empty=de)
        if r.get("cat") is not None:
            kw["cat_dissim"] = build_dissim(r["cat"])
        if r.get("pos") is not None:
            kw["pos_dissim"] = build_dissim(r["pos"])
        return pa.CombinedCategoricalDissimilarity(**kw)
    raise ValueError(k)


def needs_labels(r):
    """True when the recipe is built over an explicit category list (None labels undefined)."""
    if r["k"] in ("pre", "lev", "ord", "num"):
        return True
    if r["k"] == "comb" and r.get("cat") is not None:
        return needs_labels(r["cat"])
    return False


def recipe_labels(r):
    if r["k"] in ("pre", "lev", "ord", "num"):
        return list(r["labels"])
    if r["k"] == "comb" and r.get("cat") is not None:
        return recipe_labels(r["cat"])
    return None
