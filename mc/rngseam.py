"""The RNG seam: numpy.random.{normal,uniform,choice,random,randint,seed} answered from finite menus.

The library always calls these through the module (np.random.xxx), so rebinding the module
attributes owns all of its randomness.  Every request is logged (function, parameters, answer).
Continuous draws are answered by *generic* representatives (irrational multiples), boundary
answers are added only when the check's policy asks for them.
"""
import math

import numpy as np

PHI = (1 + 5 ** 0.5) / 2
Z_GENERIC = [0.3819660112501051, -0.5773502691896258, 1.2720196495140690, -1.6180339887498950, 2.2360679774997900]
T_GENERIC = [0.6180339887498949, 0.2928932188134524, 0.8660254037844386, 0.0710678118654752]
R_GENERIC = [0.4142135623730951, 0.7320508075688772, 0.1961524227066320]

_FUNCS = ("normal", "uniform", "choice", "random", "randint", "seed")


class Policy:
    """Menu sizes and boundary answers; checks subclass / parameterise."""

    def __init__(self, nz=3, nt=3, nr=3, boundary=False):
        self.nz, self.nt, self.nr, self.boundary = nz, nt, nr, boundary

    def normal(self, mu, sigma, log):
        if sigma == 0:
            return [float(mu)]
        m = [mu + z * sigma for z in Z_GENERIC[: self.nz]]
        if self.boundary:
            m.append(0.0)
        return m

    def uniform(self, a, b, log):
        if a == b:
            return [float(a)]
        m = [a + t * (b - a) for t in T_GENERIC[: self.nt]]
        if self.boundary:
            m.append(float(a))
            m.append(float(np.nextafter(b, a)))
        return m

    def random(self, log):
        m = list(R_GENERIC[: self.nr])
        if self.boundary:
            m += [0.0, 1.0 - 2.0 ** -53]
        return m

    def choice(self, n, p, log, items=None):
        """indices offered (default first)"""
        if p is None:
            return list(range(n))
        return [i for i in range(n) if p[i] > 0]

    def randint(self, lo, hi, log):
        return list(range(lo, hi))


class RngSeam:
    def __init__(self, chooser, policy=None, passthrough=False):
        self.chooser = chooser
        self.policy = policy or Policy()
        self.log = []  # dicts: fn, args, answer
        self.passthrough = passthrough
        self._saved = {}

    # ---- context manager
    def __enter__(self):
        for f in _FUNCS:
            self._saved[f] = getattr(np.random, f)
            setattr(np.random, f, getattr(self, "_" + f))
        return self

    def __exit__(self, *exc):
        for f, v in self._saved.items():
            setattr(np.random, f, v)
        return False

    def _pick(self, menu, label):
        i = self.chooser.choose(len(menu), label)
        return i, menu[i]

    # ---- answered functions
    def _seed(self, *a, **k):
        self.log.append({"fn": "seed", "args": list(a)})

    def _normal(self, loc=0.0, scale=1.0, size=None):
        assert size is None, "vector draws are not used by the library"
        loc, scale = float(loc), float(scale)
        if scale < 0:
            raise ValueError("scale < 0")
        menu = self.policy.normal(loc, scale, self.log)
        i, v = self._pick(menu, "normal")
        self.log.append({"fn": "normal", "mu": loc, "sigma": scale, "answer": v, "i": i})
        return float(v)

    def _uniform(self, low=0.0, high=1.0, size=None):
        assert size is None
        low, high = float(low), float(high)
        menu = self.policy.uniform(low, high, self.log)
        i, v = self._pick(menu, "uniform")
        self.log.append({"fn": "uniform", "a": low, "b": high, "answer": v, "i": i})
        return float(v)

    def _random(self, size=None):
        assert size is None
        menu = self.policy.random(self.log)
        i, v = self._pick(menu, "random")
        self.log.append({"fn": "random", "answer": v, "i": i})
        return float(v)

    def _randint(self, low, high=None, size=None):
        assert size is None
        if high is None:
            low, high = 0, low
        low, high = int(low), int(high)
        if high <= low:
            raise ValueError("low >= high")
        menu = self.policy.randint(low, high, self.log)
        i, v = self._pick(menu, "randint")
        self.log.append({"fn": "randint", "lo": low, "hi": high, "answer": v, "i": i})
        return int(v)

    def _choice(self, a, size=None, replace=True, p=None):
        assert size is None
        arr = np.array(a)
        if arr.ndim == 0:
            n = int(arr)
            if n <= 0:
                raise ValueError("a must be greater than 0 unless no samples are taken")
            arr = np.arange(n)
        elif arr.ndim != 1:
            raise ValueError("a must be 1-dimensional")
        n = len(arr)
        if n == 0:
            raise ValueError("'a' cannot be empty unless no samples are taken")
        pp = None
        if p is not None:
            pp = np.array(p, dtype=np.float64)
            if pp.ndim != 1:
                raise ValueError("'p' must be 1-dimensional")
            if len(pp) != n:
                raise ValueError("'a' and 'p' must have same size")
            if np.isnan(pp).any():
                raise ValueError("probabilities contain NaN")
            if (pp < 0).any():
                raise ValueError("probabilities are not non-negative")
            if abs(pp.sum() - 1.0) > math.sqrt(np.finfo(np.float64).eps):
                raise ValueError("probabilities do not sum to 1")
        menu = self.policy.choice(n, pp, self.log, arr)
        i, idx = self._pick(menu, "choice")
        self.log.append({"fn": "choice", "n": n, "p": None if pp is None else [float(x) for x in pp],
                         "items": [x if isinstance(x, (str, int, float)) else repr(x) for x in arr.tolist()]
                         if arr.dtype != object else [repr(x) for x in arr],
                         "answer": int(idx), "i": i})
        return arr[idx]
