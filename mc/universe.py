"""Bounded input universes, enumerated in a fixed order (simplest first).

G(n, k, T, L): all continua with annotators a0..a(n-1), each annotator's units a set of at
most k units drawn from {[s, e] : 0 <= s < e <= T integers} x L, at least one unit overall.
"""
import itertools


def segments(T):
    return [(s, e) for s in range(T) for e in range(s + 1, T + 1)]


def unit_options(k, T, labels, segs=None):
    """All unit sets of size <= k (as sorted tuples), smallest first."""
    segs = segments(T) if segs is None else segs
    units = [(s, e, lab) for (s, e) in segs for lab in labels]
    opts = []
    for size in range(0, k + 1):
        opts.extend(itertools.combinations(units, size))
    return opts


def size_G(n, k, T, labels, sym=False, ks=None, segs=None):
    ks = ks or [k] * n
    tot = 1
    for kk in ks:
        tot *= len(unit_options(kk, T, labels, [tuple(x) for x in segs] if segs else None))
    return tot - 1


def iter_G(n, k, T, labels, shard=0, nshards=1, sym=False, ks=None, max_labels=None, names=None, segs=None):
    """Yield (index, spec).  ks: per-annotator bound (overrides k).  sym: only non-decreasing
    option indices (one representative per annotator permutation; only when all ks equal).
    max_labels: skip continua using more than that many distinct labels."""
    ks = ks or [k] * n
    opts = [unit_options(kk, T, labels, segs) for kk in ks]
    names = names or [f"a{i}" for i in range(n)]
    idx = -1
    for combo in itertools.product(*[range(len(o)) for o in opts]):
        if sym and any(combo[i] > combo[i + 1] for i in range(n - 1)):
            continue
        if all(len(opts[i][c]) == 0 for i, c in enumerate(combo)):
            continue
        idx += 1
        if idx % nshards != shard:
            continue
        units = [opts[i][c] for i, c in enumerate(combo)]
        if max_labels is not None:
            labs = {u[2] for us in units for u in us}
            if len(labs) > max_labels:
                continue
        yield idx, {"annotators": [[names[i], [list(u) for u in units[i]]] for i in range(n)]}


# ----------------------------------------------------------------------------- structured families

def fam_identical(n, q, step=4, dur=2, labels=("x",)):
    return {"annotators": [[f"a{i}", [[j * step, j * step + dur, labels[j % len(labels)]] for j in range(q)]]
                           for i in range(n)]}


def fam_staircase(n, q, eps=0.25, step=4, dur=2, labels=("x", "y")):
    return {"annotators": [[f"a{i}", [[j * step + i * eps, j * step + dur + i * eps, labels[(i + j) % len(labels)]]
                                      for j in range(q)]] for i in range(n)]}


def fam_nested(n, q, labels=("x", "y")):
    """annotator 0: one long unit over everything; the others q short units each."""
    anns = [["a0", [[0, 4 * q, labels[0]]]]]
    for i in range(1, n):
        anns.append([f"a{i}", [[4 * j + (i - 1) * 0.5, 4 * j + 2 + (i - 1) * 0.5, labels[j % len(labels)]]
                               for j in range(q)]])
    return {"annotators": anns}


def fam_interleaved(n, q, labels=("x", "y")):
    """annotator i's j-th unit starts at (j*n + i) * 1.5, length 2: neighbours overlap across annotators."""
    return {"annotators": [[f"a{i}", [[(j * n + i) * 1.5, (j * n + i) * 1.5 + 2, labels[(i * j) % len(labels)]]
                                      for j in range(q)]] for i in range(n)]}


def fam_block(sizes, spread=0.125, far=None, labels=("x",)):
    """'all mutually close' block: annotator i has sizes[i] units, all starting within `spread`*index of
    each other and of length 8, so every combination is under the cut: count = prod(k_i + 1) - 1.
    far: optional list of extra far-away units per annotator (interleaves rejected tuples)."""
    anns = []
    for i, k in enumerate(sizes):
        units = [[j * spread / max(1, k), 8 + j * spread / max(1, k) + i * spread / 8, labels[0]] for j in range(k)]
        if far:
            for f in range(far[i]):
                units.append([1000.0 * (f + 1) + i, 1000.0 * (f + 1) + i + 1, labels[0]])
        anns.append([f"a{i}", units])
    return {"annotators": anns}


def fam_block_lonely(p, q, ra, rb, labels=(None,)):
    """Two annotators: a block of p x q mutually close units (every pair and every unit/empty combination is under
    the cut: (p+1)(q+1)-1 candidates, enumerated first) followed by ra / rb far-away units, each of which has the
    single candidate (itself, empty).  With annotator a0's index varying fastest, the k-th lonely unit of a1 is
    candidate number (p+1)*q + k: sizes are chosen so that these fall on / just after a buffer boundary."""
    lab = labels[0]
    a = [[0.01 * i, 10 + 0.01 * i, lab] for i in range(p)] + [[1000.0 * (f + 1), 1000.0 * (f + 1) + 10, lab] for f in range(ra)]
    b = [[0.005 + 0.01 * j, 10.005 + 0.01 * j, lab] for j in range(q)] + \
        [[1000.0 * (f + 1) + 500, 1000.0 * (f + 1) + 510, lab] for f in range(rb)]
    return {"annotators": [["a0", a], ["a1", b]]}


def fam_sparse(sizes, step=4.0, dur=2.0, labels=("x", "y")):
    """Many units per annotator but few candidates: annotator i's j-th unit is [j*step + i/2, j*step + i/2 + dur], so only
    units of (nearly) the same rank are close.  The pairwise tables are large (prod of sizes) while the candidate
    list stays linear - sizes are chosen so that cumulative table sizes cross 2**15 and 2**16."""
    return {"annotators": [[f"a{i}", [[j * step + i * 0.5, j * step + i * 0.5 + dur, labels[(i + j) % len(labels)]]
                                      for j in range(k)]] for i, k in enumerate(sizes)]}
