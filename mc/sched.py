"""E1 for threads: a controlled executor that replaces ThreadPoolExecutor, explored by mc/explorer.py.

W model workers, FIFO queue (as the real pool), real concurrent.futures.Future objects, controlled
as_completed / wait.  Every job runs in its own real thread that only runs while it holds the baton
(one semaphore per thread).  Scheduling points: submit, job end, blocking in result() / __exit__ /
as_completed, and every *visible operation* executed by a job thread: a call into np.random.*, a
Continuum mutator, or an attribute store on a Continuum / dissimilarity / sampler object that the
job did not create.  Code between two visible operations touches job-private state only.

A happens-before monitor (vector clocks advanced on submit -> start and end -> result edges only,
NOT on baton hand-offs) reports unordered accesses to the NumPy RNG or to a shared object.
"""
import threading
from concurrent.futures import Future

import numpy as np


class Deadlock(Exception):
    pass


class Aborted(BaseException):
    pass


_ACTIVE = None  # the scheduler of the execution in progress (one at a time per process)


def active():
    return _ACTIVE


class Sched:
    def __init__(self, chooser, workers):
        self.ch = chooser
        self.W = workers
        self.recs = {"main": {"sem": threading.Semaphore(0), "state": "running", "vc": {"main": 1}}}
        self.ident = {threading.get_ident(): "main"}
        self.current = "main"
        self.main_wait = None
        self.queue = []
        self.active_jobs = 0
        self.njobs = 0
        self.events = []       # schedule-visible events: (thread, label)
        self.failure = None
        self.abort = False
        self.threads = []
        self.races = []
        self.rng_access = {}   # tid -> last vc at an RNG access
        self.obj_access = {}   # id(obj) -> {tid: last vc at a write}
        self.job_visible_ops = 0
        self.hot = set()       # ids of shared objects a job thread has written in this execution
        self.obj_reads = {}    # id(obj) -> {tid: last vc at a read}
        self.creators = {}     # id(obj) -> creating thread (objects created during this execution)
        self.keep = []         # strong references, so that ids are not reused within one execution

    # ---------------------------------------------------------------- identity / clocks
    def me(self):
        return self.ident.get(threading.get_ident())

    @staticmethod
    def _leq(a, b):
        return all(v <= b.get(k, 0) for k, v in a.items())

    def _tick(self, tid):
        vc = self.recs[tid]["vc"]
        vc[tid] = vc.get(tid, 0) + 1
        return dict(vc)

    def _join(self, tid, other):
        vc = self.recs[tid]["vc"]
        for k, v in other.items():
            if v > vc.get(k, 0):
                vc[k] = v

    def record_rng(self, name):
        tid = self.me()
        if tid is None:
            return
        now = self._tick(tid)
        for other, vc in self.rng_access.items():
            if other != tid and not self._leq(vc, now):
                self.races.append(f"NumPy RNG accessed by {tid} ({name}) concurrently with {other}: the seeded stream "
                                  f"is consumed in a schedule-dependent order")
        self.rng_access[tid] = now

    def record_write(self, obj, what):
        tid = self.me()
        if tid is None:
            return
        now = self._tick(tid)
        acc = self.obj_access.setdefault((id(obj), what), {})
        for other, vc in acc.items():
            if other != tid and not self._leq(vc, now):
                self.races.append(f"{type(obj).__name__}.{what} written by {tid} concurrently with a write by {other}")
        for other, vc in self.obj_reads.get((id(obj), what), {}).items():
            if other != tid and not self._leq(vc, now):
                self.races.append(f"{type(obj).__name__}.{what} written by {tid} concurrently with a read by {other}")
        acc[tid] = now
        if tid != "main":
            self.hot.add(id(obj))

    def record_read(self, obj, what):
        """Reads are recorded only for objects some job thread has written in this execution (the only ones for which
        an unordered read matters); a read that precedes the first write is caught from the write's side only if it
        was recorded, so reads of shared objects by the main thread are recorded from the start (see watch_class)."""
        tid = self.me()
        if tid is None:
            return
        now = dict(self.recs[tid]["vc"])
        for other, vc in self.obj_access.get((id(obj), what), {}).items():
            if other != tid and not self._leq(vc, now):
                self.races.append(f"{type(obj).__name__}.{what} read by {tid} concurrently with a write by {other}")
        self.obj_reads.setdefault((id(obj), what), {})[tid] = now

    # ---------------------------------------------------------------- scheduling core
    def enabled(self, finished=None):
        cur = self.current
        out = []
        main_ok = self.recs["main"]["state"] != "done" and self._main_ready()
        if cur == "main":
            if main_ok and finished != "main":
                out.append("main")
        else:
            if cur != finished and self.recs[cur]["state"] == "runnable":
                out.append(cur)
            if main_ok:
                out.append("main")
        for tid in sorted((t for t in self.recs if t != "main"), key=lambda t: int(t[1:])):
            if tid != cur and self.recs[tid]["state"] == "runnable":
                out.append(tid)
        return out

    def _main_ready(self):
        w = self.main_wait
        if w is None:
            return True
        kind, futs = w
        if kind == "all":
            return all(f.done() for f in futs)
        return any(f.done() for f in futs)

    def point(self, label, finished=None):
        """Called by the thread holding the baton.  Picks who runs next."""
        if self.abort:
            raise Aborted()
        tid = self.me()
        en = self.enabled(finished)
        if not en:
            if finished is not None and all(r["state"] == "done" for t, r in self.recs.items() if t != "main") \
                    and self.recs["main"]["state"] == "done":
                return
            self.fail(Deadlock(f"no enabled thread at '{label}' (main waits for {self.main_wait})"))
            raise Aborted()
        try:
            if hasattr(self.ch, "pick"):
                i = self.ch.pick(list(en), label)   # model-driven replay (mc/tlc.py): choose by thread name
            else:
                i = self.ch.choose(len(en), label)
        except BaseException as e:  # Horizon / Diverged from the explorer
            self.fail(e)
            raise Aborted()
        nxt = en[i]
        self.events.append((tid, label, nxt))
        if nxt == tid:
            return
        self.current = nxt
        self.recs[nxt]["sem"].release()
        if finished is None:
            self.recs[tid]["sem"].acquire()
            if self.abort:
                raise Aborted()

    def fail(self, exc):
        if self.failure is None:
            self.failure = exc
        self.abort = True
        for t, r in self.recs.items():
            r["sem"].release()
            r["sem"].release()

    # ---------------------------------------------------------------- executor protocol
    def submit(self, pool, fn, args, kwargs):
        if self.me() != "main":
            raise RuntimeError("harness: submit from a job thread is not modelled")
        self.njobs += 1
        jid = f"j{self.njobs}"
        fut = ControlledFuture(self, jid)
        rec = {"sem": threading.Semaphore(0), "state": "queued", "vc": dict(self._tick("main")), "fut": fut}
        rec["vc"][jid] = 1
        self.recs[jid] = rec
        pool.futures.append(fut)

        def body():
            self.ident[threading.get_ident()] = jid
            rec["sem"].acquire()
            try:
                if self.abort:
                    return
                try:
                    r = fn(*args, **kwargs)
                    fut.vc = dict(self._tick(jid))
                    fut.set_result(r)
                except Aborted:
                    return
                except BaseException as e:  # noqa
                    fut.vc = dict(self._tick(jid))
                    fut.set_exception(e)
                rec["state"] = "done"
                self.active_jobs -= 1
                if self.queue:
                    nxt = self.queue.pop(0)
                    self.recs[nxt]["state"] = "runnable"
                    self.active_jobs += 1
                try:
                    self.point(f"end {jid}", finished=jid)
                except Aborted:
                    return
            finally:
                rec["state"] = "done"

        t = threading.Thread(target=body, name=f"verif-{jid}", daemon=True)
        self.threads.append(t)
        t.start()
        if self.active_jobs < self.W:
            rec["state"] = "runnable"
            self.active_jobs += 1
        else:
            self.queue.append(jid)
        self.point(f"submit {jid}")
        return fut

    def wait_main(self, kind, futs, label):
        if self.me() != "main":
            raise RuntimeError("harness: waiting from a job thread is not modelled")
        self.main_wait = (kind, list(futs))
        try:
            self.point(label)
        finally:
            self.main_wait = None
        for f in futs:
            if f.done() and getattr(f, "vc", None):
                self._join("main", f.vc)

    def visible(self, label):
        """A visible operation of a job thread is a scheduling point."""
        tid = self.me()
        if tid is None or tid == "main":
            return
        self.job_visible_ops += 1
        self.point(label)

    def finish(self):
        """Called by the driver when the execution is over (or failed): no thread may be left behind."""
        self.abort = True
        for t, r in self.recs.items():
            if t != "main":
                r["sem"].release()
        for t in self.threads:
            t.join(10)
        alive = [t.name for t in self.threads if t.is_alive()]
        if alive:
            raise RuntimeError(f"harness: threads left behind {alive}")


class ControlledFuture(Future):
    def __init__(self, sched, jid):
        super().__init__()
        self._sched = sched
        self.jid = jid
        self.vc = None

    def result(self, timeout=None):
        s = self._sched
        if s.me() == "main" and not s.abort:
            s.wait_main("all", [self], f"result {self.jid}")
        return super().result(timeout=0 if not s.abort else 5)

    def exception(self, timeout=None):
        s = self._sched
        if s.me() == "main" and not s.abort:
            s.wait_main("all", [self], f"exception {self.jid}")
        return super().exception(timeout=0)


class ControlledPool:
    def __init__(self, max_workers=None, *a, **k):
        s = active()
        if s is None:
            raise RuntimeError("harness: ControlledPool used without an active scheduler")
        self.sched = s
        self.futures = []

    def submit(self, fn, *args, **kwargs):
        return self.sched.submit(self, fn, args, kwargs)

    def map(self, fn, *iterables, timeout=None, chunksize=1):
        futs = [self.submit(fn, *args) for args in zip(*iterables)]

        def gen():
            for f in futs:
                yield f.result()
        return gen()

    def shutdown(self, wait=True, cancel_futures=False):
        if wait and self.futures and not self.sched.abort:
            self.sched.wait_main("all", self.futures, "shutdown")

    def __enter__(self):
        return self

    def __exit__(self, et, ev, tb):
        if et is None or not isinstance(ev, Aborted):
            try:
                self.shutdown(wait=True)
            except Aborted:
                if et is None:
                    raise
        return False


def controlled_as_completed(fs, timeout=None):
    s = active()
    pending = []
    for f in fs:
        if f not in pending:
            pending.append(f)
    while pending:
        done = [f for f in pending if f.done()]
        if not done:
            s.wait_main("any", pending, "as_completed")
            continue
        # the real as_completed yields finished futures in an unspecified order: a choice
        try:
            i = s.ch.choose(len(done), "as_completed order")
        except BaseException as e:  # noqa
            s.fail(e)
            raise Aborted()
        f = done[i]
        pending.remove(f)
        if getattr(f, "vc", None):
            s._join("main", f.vc)
        yield f


def controlled_wait(fs, timeout=None, return_when="ALL_COMPLETED"):
    s = active()
    fs = list(fs)
    if return_when == "ALL_COMPLETED":
        s.wait_main("all", fs, "wait all")
    else:
        s.wait_main("any", fs, "wait any")
    done = {f for f in fs if f.done()}
    return done, set(fs) - done


# --------------------------------------------------------------------------- installation

_installed = {"done": False, "orig": {}}
# plain data attributes whose reads are recorded for the happens-before monitor (scalars that the code reads while
# drawing samples or aligning; containers are handled by the mutator / traced-container hooks)
READ_ATTRS = {"Continuum": ("best_window_size", "bound_inf", "bound_sup", "uri")}
_RNG_FUNCS = ("normal", "uniform", "choice", "random", "randint", "seed", "rand", "randn", "shuffle", "permutation",
              "random_sample", "sample", "standard_normal")


def install():
    """Rebind the seams (idempotent).  Everything is transparent when no scheduler is active."""
    if _installed["done"]:
        return
    from .load import load
    pa = load()
    import concurrent.futures as cf
    import pygamma_agreement.continuum as cm
    orig_tpe, orig_ac, orig_wait = cf.ThreadPoolExecutor, cf.as_completed, cf.wait
    _installed["orig"].update(tpe=orig_tpe, ac=orig_ac, wait=orig_wait)

    class SwitchPool:
        """ThreadPoolExecutor seam: controlled when a scheduler is active, the real one otherwise."""
        def __new__(cls, *a, **k):
            if active() is not None:
                return ControlledPool(*a, **k)
            return orig_tpe(*a, **k)

    def as_completed(fs, timeout=None):
        if active() is not None:
            return controlled_as_completed(fs, timeout)
        return orig_ac(fs, timeout)

    def wait(fs, timeout=None, return_when="ALL_COMPLETED"):
        if active() is not None:
            return controlled_wait(fs, timeout, return_when)
        return orig_wait(fs, timeout, return_when)

    import sys
    for name, mod in list(sys.modules.items()):
        if mod is None or not (name == "pygamma_agreement" or name.startswith("pygamma_agreement.")):
            continue
        for attr, val in list(vars(mod).items()):
            if val is orig_tpe:
                setattr(mod, attr, SwitchPool)
            elif val is orig_ac:
                setattr(mod, attr, as_completed)
            elif val is orig_wait:
                setattr(mod, attr, wait)
            elif val is cf:
                pass
    cf.ThreadPoolExecutor, cf.as_completed, cf.wait = SwitchPool, as_completed, wait
    import concurrent.futures.thread as cft
    _installed["orig"]["cft"] = cft.ThreadPoolExecutor

    # ---- NumPy RNG: pass-through, logged, scheduling point for job threads
    for fname in _RNG_FUNCS:
        if not hasattr(np.random, fname):
            continue
        real = getattr(np.random, fname)

        def make(real, fname):
            def wrapper(*a, **k):
                s = active()
                if s is not None and not s.abort:
                    s.visible(f"np.random.{fname}")
                    s.record_rng(fname)
                    s.rng_log.append((s.me(), fname)) if hasattr(s, "rng_log") else None
                return real(*a, **k)
            wrapper.__name__ = fname
            return wrapper
        setattr(np.random, fname, make(real, fname))

    # ---- a generator constructed without a seed is a source of randomness np.random.seed does not govern
    if hasattr(np.random, "default_rng"):
        real_rng = np.random.default_rng

        def default_rng(seed=None, *a, **k):
            s = active()
            if s is not None and not s.abort and seed is None:
                s.races.append("np.random.default_rng() constructed without a seed: its draws are not governed by the "
                               "NumPy global seed")
            return real_rng(seed, *a, **k)
        np.random.default_rng = default_rng

    # ---- shared objects: attribute stores and mutators
    def creator_of(s, obj):
        return s.creators.get(id(obj), "main")

    def watch_class(cls, mutators=()):
        orig_init = cls.__init__
        orig_setattr = cls.__setattr__

        def __init__(self, *a, **k):
            s = active()
            if s is not None:
                s.creators[id(self)] = s.me()
                s.keep.append(self)
            orig_init(self, *a, **k)

        def __setattr__(self, name, value):
            s = active()
            if s is not None and not s.abort:
                me = s.me()
                if me is not None and me != "main" and creator_of(s, self) != me:
                    s.visible(f"{cls.__name__}.{name} =")
                    s.record_write(self, name)
            orig_setattr(self, name, value)
        cls.__init__ = __init__
        cls.__setattr__ = __setattr__
        watched_reads = READ_ATTRS.get(cls.__name__, ())
        if watched_reads:
            orig_getattribute = cls.__getattribute__

            def __getattribute__(self, name):
                if name in watched_reads:
                    s = active()
                    if s is not None and not s.abort:
                        me = s.me()
                        if me is not None:
                            s.record_read(self, name)
                return orig_getattribute(self, name)
            cls.__getattribute__ = __getattribute__
        for m in mutators:
            orig_m = getattr(cls, m)

            def make(orig_m, m):
                def wrapper(self, *a, **k):
                    s = active()
                    if s is not None and not s.abort:
                        me = s.me()
                        if me is not None and me != "main" and creator_of(s, self) != me:
                            s.visible(f"{cls.__name__}.{m}()")
                            s.record_write(self, m)
                    return orig_m(self, *a, **k)
                wrapper.__name__ = m
                return wrapper
            setattr(cls, m, make(orig_m, m))

    watch_class(pa.Continuum, ("add", "add_annotator", "remove", "merge", "reset_bounds"))
    from pygamma_agreement.dissimilarity import AbstractDissimilarity
    watch_class(AbstractDissimilarity)
    watch_class(pa.AbstractContinuumSampler)
    _installed["done"] = True


def run_controlled(fn, chooser, workers):
    """Run fn() (the driver, in the calling thread = 'main') under a fresh scheduler.
    Returns (value, scheduler).  Raises the explorer's exception (Horizon / Diverged) or Deadlock."""
    global _ACTIVE
    install()
    s = Sched(chooser, workers)
    s.rng_log = []
    _ACTIVE = s
    try:
        try:
            val = fn()
        except Aborted:
            val = None
        s.recs["main"]["state"] = "done"
    finally:
        try:
            s.finish()
        finally:
            _ACTIVE = None
    if s.failure is not None:
        raise s.failure
    return val, s


# --------------------------------------------------------------------------- free-running data-race pass

def install_free_monitor():
    """For the free-running pass on the real ThreadPoolExecutor (no scheduler): the same seams stay
    installed and report (a) NumPy RNG use by a pool worker thread, (b) writes to the same attribute of the
    same shared object from two different threads.  Cooperative hand-offs would hide these from a race
    detector, hence a separate pass.  Returns the (live) list of events."""
    from .load import load
    pa = load()
    global _FREE_EVENTS
    events = []
    _FREE_EVENTS = events
    main = threading.main_thread()
    keep = []
    creators = {}
    writers = {}
    lock = threading.Lock()

    for fname in _RNG_FUNCS:
        if not hasattr(np.random, fname):
            continue
        real = getattr(np.random, fname)

        def make(real, fname):
            def wrapper(*a, **k):
                if threading.current_thread() is not main:
                    events.append(f"np.random.{fname} called from pool worker thread")
                return real(*a, **k)
            return wrapper
        setattr(np.random, fname, make(real, fname))

    if hasattr(np.random, "default_rng"):
        real_rng = np.random.default_rng

        def default_rng(seed=None, *a, **k):
            if seed is None:
                events.append("np.random.default_rng() constructed without a seed: its draws are not governed by the "
                              "NumPy global seed")
            return real_rng(seed, *a, **k)
        np.random.default_rng = default_rng

    def watch(cls, mutators=()):
        orig_init, orig_setattr = cls.__init__, cls.__setattr__

        def __init__(self, *a, **k):
            with lock:
                creators[id(self)] = threading.get_ident()
                keep.append(self)
            orig_init(self, *a, **k)

        def note(self, what):
            me = threading.get_ident()
            if creators.get(id(self), main.ident) == me:
                return
            with lock:
                ws = writers.setdefault((id(self), what), set())
                ws.add(me)
                if len(ws) > 1:
                    events.append(f"{cls.__name__}.{what} of a shared object written by {len(ws)} different threads")

        def __setattr__(self, name, value):
            note(self, name)
            orig_setattr(self, name, value)
        cls.__init__, cls.__setattr__ = __init__, __setattr__
        for m in mutators:
            om = getattr(cls, m)

            def mk(om, m):
                def wrapper(self, *a, **k):
                    note(self, m + "()")
                    return om(self, *a, **k)
                return wrapper
            setattr(cls, m, mk(om, m))

    watch(pa.Continuum, ("add", "add_annotator", "remove", "merge", "reset_bounds"))
    from pygamma_agreement.dissimilarity import AbstractDissimilarity
    watch(AbstractDissimilarity)
    watch(pa.AbstractContinuumSampler)
    return events


# --------------------------------------------------------------------------- shared containers

_FREE_EVENTS = None  # set by install_free_monitor(): list receiving events of the free-running pass
_FREE_WRITERS = {}


def _container_access(obj, what, write):
    """Called by traced containers.  Under the scheduler: a visible operation of a job thread (scheduling point)
    and, for writes, an entry for the happens-before monitor.  Free-running: remember which threads wrote."""
    s = active()
    if s is not None and not s.abort:
        me = s.me()
        if write and me is not None and me != "main":
            # writes of a job thread to a shared container are visible operations; reads are not scheduling points
            # (they would multiply the schedule space by the number of look-ups) - a limitation stated in DESIGN
            s.visible(f"{what}")
            s.record_write(obj, what)
        return
    if _FREE_EVENTS is not None and write:
        me = threading.get_ident()
        ws = _FREE_WRITERS.setdefault(id(obj), set())
        ws.add(me)
        if len(ws) > 1 or (threading.current_thread() is not threading.main_thread() and len(ws) >= 1 and
                           any(w != me for w in ws)):
            _FREE_EVENTS.append(f"shared container ({what}) written by {len(ws)} different threads")


class TracedDict(dict):
    """A dict held by a shared object (dissimilarity, sampler): every access from a job thread is visible."""
    def __setitem__(self, k, v):
        _container_access(self, "dict[...] =", True)
        return dict.__setitem__(self, k, v)

    def __delitem__(self, k):
        _container_access(self, "del dict[...]", True)
        return dict.__delitem__(self, k)

    def setdefault(self, k, default=None):
        _container_access(self, "dict.setdefault", True)
        return dict.setdefault(self, k, default)

    def update(self, *a, **k):
        _container_access(self, "dict.update", True)
        return dict.update(self, *a, **k)

    def pop(self, *a):
        _container_access(self, "dict.pop", True)
        return dict.pop(self, *a)

    def clear(self):
        _container_access(self, "dict.clear", True)
        return dict.clear(self)

    def __getitem__(self, k):
        _container_access(self, "dict[...]", False)
        return dict.__getitem__(self, k)

    def get(self, k, default=None):
        _container_access(self, "dict.get", False)
        return dict.get(self, k, default)

    def __contains__(self, k):
        _container_access(self, "in dict", False)
        return dict.__contains__(self, k)

    def __len__(self):
        _container_access(self, "len(dict)", False)
        return dict.__len__(self)


class TracedList(list):
    def append(self, x):
        _container_access(self, "list.append", True)
        return list.append(self, x)

    def extend(self, x):
        _container_access(self, "list.extend", True)
        return list.extend(self, x)

    def insert(self, i, x):
        _container_access(self, "list.insert", True)
        return list.insert(self, i, x)

    def pop(self, *a):
        _container_access(self, "list.pop", True)
        return list.pop(self, *a)

    def remove(self, x):
        _container_access(self, "list.remove", True)
        return list.remove(self, x)

    def clear(self):
        _container_access(self, "list.clear", True)
        return list.clear(self)

    def __setitem__(self, i, v):
        _container_access(self, "list[...] =", True)
        return list.__setitem__(self, i, v)

    def __len__(self):
        _container_access(self, "len(list)", False)
        return list.__len__(self)


class TracedSet(set):
    def add(self, x):
        _container_access(self, "set.add", True)
        return set.add(self, x)

    def discard(self, x):
        _container_access(self, "set.discard", True)
        return set.discard(self, x)

    def remove(self, x):
        _container_access(self, "set.remove", True)
        return set.remove(self, x)

    def update(self, *a):
        _container_access(self, "set.update", True)
        return set.update(self, *a)

    def clear(self):
        _container_access(self, "set.clear", True)
        return set.clear(self)

    def __contains__(self, x):
        _container_access(self, "in set", False)
        return set.__contains__(self, x)


def trace_containers(obj, _depth=0):
    """Replace the plain dict / list / set attributes of a shared object (and of the dissimilarities nested in it)
    by traced equivalents with the same content.  Idempotent; called by the C06 drivers on the dissimilarity and
    the sampler before every execution (objects a job creates for itself are not touched)."""
    if obj is None or _depth > 3 or not hasattr(obj, "__dict__"):
        return obj
    # process-level state must not leak from one execution into the next: the content each traced container had
    # when it was first seen (i.e. as constructed) is restored before every execution
    pristine = vars(obj).get("_verif_pristine")
    if pristine is not None:
        for k, content in pristine.items():
            cur = vars(obj).get(k)
            if isinstance(cur, TracedDict):
                dict.clear(cur)
                dict.update(cur, content)
            elif isinstance(cur, TracedList):
                list.clear(cur)
                list.extend(cur, content)
            elif isinstance(cur, TracedSet):
                set.clear(cur)
                set.update(cur, content)
    else:
        object.__setattr__(obj, "_verif_pristine", {})
        pristine = vars(obj)["_verif_pristine"]
    for k, v in list(vars(obj).items()):
        new = None
        if k == "_verif_pristine":
            continue
        if type(v) in (dict, list, set):
            import copy
            pristine[k] = copy.copy(v)
        if type(v) is dict:
            new = TracedDict(v)
        elif type(v) is list:
            new = TracedList(v)
        elif type(v) is set:
            new = TracedSet(v)
        elif hasattr(v, "d_mat") and hasattr(v, "delta_empty"):
            trace_containers(v, _depth + 1)
        if new is not None:
            object.__setattr__(obj, k, new)
    return obj
