"""Regenerates MANIFEST.json from the table below:  /venv/bin/python -m mc.manifest_gen"""
import json
import os

from .load import VERIF

CHECKS = {
    "C01": dict(engine="E3 universe + structural oracle", design="§4 C01",
                technique="explicit enumeration of bounded input universes G(n,k,T,L) x dissimilarity menu x MIP "
                          "back-ends, structural partition validator on every returned alignment",
                text="Every continuum of the stated bounded universes (2..5 annotators, empty annotators, identical/"
                     "nested/overlapping segments, labelled and unlabelled units) is aligned by the real library under "
                     "both MIP back-ends and every returned alignment is validated structurally; exceptions and "
                     "non-return count as violations. Exhaustive within the bounds, nothing beyond them.",
                note="Trusted: the universe enumerator and the 40-line validator; GLPK forced by masking cylp."),
    "C02": dict(engine="E3 universe + DP oracle", design="§4 C02",
                technique="explicit enumeration of bounded input universes, exact subset-DP oracle over the unpruned "
                          "tuple set",
                text="For every enumerated continuum x dissimilarity x back-end the library's optimum is compared with "
                     "an independent exact minimum over all partitions (DP over unit subsets using every one-unit-or-"
                     "empty combination, unpruned), which decides both optimality and harmlessness of pruning.",
                note="Trusted: float64 oracle formulas; <= 14 units; integer/dyadic grids; 1e-4 relative tolerance."),
    "C08": dict(engine="E3 universe x solver configurations", design="§4 C08",
                technique="configuration enumeration (3 solver configurations incl. injected SolverError) x bounded "
                          "input universe, solver identity observed by a spy, DP oracle",
                text="Three solver configurations x best/soft x enumerated continua; a spy proves which solver ran; "
                     "results validated structurally and against the exact optimum, hence equal across back-ends.",
                note="Trusted: sys.modules masking and the injected SolverError reproduce 'cylp missing / failing'."),
    "C11": dict(engine="E3 universe + cover DP oracle", design="§4 C11",
                technique="explicit enumeration of bounded input universes, exact cover DP oracle",
                text="Soft alignments of every enumerated continuum validated as covers by well-formed unitary "
                     "alignments, with disorder equal to the exact minimum over all covers and <= partition optimum.",
                note="Trusted: float64 oracle; <= 14 units; 1e-4 relative tolerance."),
}

PENDING_REASON = "check not built yet in this session (planned, see DESIGN.md section 4); not claimed until it runs"


def main():
    props = [json.loads(l)["id"] for l in open(os.path.join(VERIF, "properties.jsonl"))]
    checks = []
    for pid in props:
        if pid not in CHECKS:
            continue
        c = CHECKS[pid]
        checks.append({
            "property_id": pid,
            "quick_cmd": f"./check {pid} --tier quick",
            "thorough_cmd": f"./check {pid} --tier thorough",
            "evidence_file": f"evidence/{pid}.json",
            "replay_cmd_template": f"./check {pid} --replay {{path}}",
            "engine": c["engine"],
            "level_claimed": {"category": "model_checking", "text": c["text"], "design_ref": c["design"]},
            "level_note": c["note"],
            "technique": c["technique"],
        })
    man = {
        "version": 1,
        "setup_cmd": "./check --selftest",
        "hooks": {
            "guard": "PYGAMMA_AGREEMENT_VERIF",
            "enable": "no source hooks: every seam is a module attribute rebound by the harness at run time "
                      "(ThreadPoolExecutor, numpy.random.*, sys.modules['cylp'], cvxpy.Problem.solve)",
            "baseline_off_cmd": "cd /repo && /venv/bin/python -m pytest -ra -q -p no:cacheprovider --timeout=900 "
                                "--continue-on-collection-errors",
            "source_commits": [],
            "add_only": True,
        },
        "engines": [
            {"name": "E3 bounded input universes + reference oracles", "path": "mc/universe.py, mc/oracles.py",
             "serves_properties": [p for p in props if p in CHECKS],
             "kind_free_text": "explicit-state enumeration of bounded input spaces against float64 reference models"},
        ],
        "checks": checks,
        "notes": "All checks run the real library from /repo's working tree (VERIF_REPO overrides for scratch "
                 "worktrees). Exit 0/1/2 = holds / violation / harness error.",
        "not_applicable": [{"property_id": p, "reason": PENDING_REASON} for p in props if p not in CHECKS],
    }
    with open(os.path.join(VERIF, "MANIFEST.json"), "w") as f:
        json.dump(man, f, indent=1)
    print("MANIFEST.json:", len(checks), "checks,", len(man["not_applicable"]), "not claimed")


if __name__ == "__main__":
    main()
