"""Regenerates MANIFEST.json from the table below:  /venv/bin/python -m mc.manifest_gen"""
import json
import os

from .load import VERIF

CHECKS = {
    "C01": dict(engine="E3 universe + structural oracle", design="§4 C01",
                technique="explicit enumeration of bounded input universes G(n,k,T,L) x dissimilarity menu x MIP "
                          "back-ends, structural partition validator on every returned alignment",
                text="Every continuum of the stated bounded universes (2..5 annotators, empty annotators, identical/"
                     "nested/overlapping segments, labelled and unlabelled units) is aligned by the real library under "
                     "both MIP back-ends and every returned alignment is validated structurally; exceptions and "
                     "non-return count as violations. Exhaustive within the bounds, nothing beyond them.",
                note="Trusted: the universe enumerator and the 40-line validator; GLPK forced by masking cylp."),
    "C02": dict(engine="E3 universe + DP oracle", design="§4 C02",
                technique="explicit enumeration of bounded input universes, exact subset-DP oracle over the unpruned "
                          "tuple set",
                text="For every enumerated continuum x dissimilarity x back-end the library's optimum is compared with "
                     "an independent exact minimum over all partitions (DP over unit subsets using every one-unit-or-"
                     "empty combination, unpruned), which decides both optimality and harmlessness of pruning.",
                note="Trusted: float64 oracle formulas; <= 14 units; integer/dyadic grids; 1e-4 relative tolerance."),
    "C08": dict(engine="E3 universe x solver configurations", design="§4 C08",
                technique="configuration enumeration (3 solver configurations incl. injected SolverError) x bounded "
                          "input universe, solver identity observed by a spy, DP oracle; fault enumeration (CBC "
                          "failing at every solver call of a gamma computation)",
                text="Three solver configurations x best/soft x enumerated continua; a spy proves which solver ran; "
                     "results validated structurally and against the exact optimum, hence equal across back-ends.",
                note="Trusted: sys.modules masking and the injected SolverError reproduce 'cylp missing / failing'."),
    "C11": dict(engine="E3 universe + cover DP oracle", design="§4 C11",
                technique="explicit enumeration of bounded input universes, exact cover DP oracle",
                text="Soft alignments of every enumerated continuum validated as covers by well-formed unitary "
                     "alignments, with disorder equal to the exact minimum over all covers and <= partition optimum.",
                note="Trusted: float64 oracle; <= 14 units; 1e-4 relative tolerance."),
    "C05": dict(engine="E1 choice-point explorer over scripted sampler answers", design="§4 C05",
                technique="stateless exploration of all answer sequences of a scripted sampler (first batch full "
                          "product, second batch deviation-bounded) on the real compute_gamma, plus pass-through runs",
                text="compute_gamma is executed for every sequence of scripted-sampler answers x n_samples x precision "
                     "x mode; sample count, freshness, per-sample optimum, expected disorder and gamma are recomputed "
                     "independently. Built-in samplers are run in pass-through for the ground-truth clause.",
                note="Trusted: serial executor instead of the thread pool; float64 N_required with an ambiguity band."),
    "C07": dict(engine="E3 universe + NumPy oracle + block families", design="§4 C07",
                technique="explicit enumeration of bounded input universes and of block families around every "
                          "buffer-growth boundary, float64 candidate-table oracle with exact-rational tie analysis",
                text="valid_alignments() is compared, as a set with disorders, with an independent enumeration of all "
                     "combinations for every enumerated continuum, and for parameterised families whose candidate "
                     "count crosses 10 000 / 15 000 / 22 500 (/ 33 750).",
                note="Trusted: NumPy oracle; membership on the cut asserted only for float32-exact ties."),
    "C12": dict(engine="E3 universe x all alignments + definition oracle", design="§4 C12",
                technique="explicit enumeration of bounded continua x all their partitions into unitary alignments x "
                          "categories x combined dissimilarities, oracle = transcription of the definition",
                text="gamma_k_disorder of every enumerated alignment, category and dissimilarity equals the stated "
                     "weighted mean; GammaResults.gamma_cat/gamma_k equal 1 - observed/mean chance on result objects "
                     "with known chance alignments; TypeError for non-combined dissimilarities.",
                note="Cases without a counted real pair / zero weight / zero expectation are unspecified."),
    "C15": dict(engine="E1 choice-point explorer + RNG seam", design="§4 C15",
                technique="stateless exploration of all RNG answer sequences of the real sampler (deviation-bounded "
                          "for 3 annotators), generative reference model and request-trace conformance",
                text="Every answer sequence of np.random for the stated references / custom parameter sets is executed; "
                     "validity of every draw, conformance of every request to the count/gap/duration/category laws "
                     "with independently recomputed parameters, and equality with the generative model.",
                note="NumPy's generator is trusted to follow the law it is asked for; finite generic answer menus."),
    "C16": dict(engine="E1 choice-point explorer + RNG seam", design="§4 C16",
                technique="stateless exploration of all RNG answer sequences of the real shuffle sampler (full product "
                          "<= 3 sampled annotators, deviation-bounded for 5), model driven by the served answers",
                text="Every answer sequence (available segment x uniform answers x ground-truth annotator) is executed "
                     "and the sample compared with 'one ground-truth annotator shifted by its pivot, wrapped'; pivot "
                     "separation checked whenever all pivots came from the pool.",
                note="Known finding int-pivot-truncation is matched by signature; retry loop forced at most once."),
    "C19": dict(engine="E1 choice-point explorer + RNG seam", design="§4 C19",
                technique="stateless exploration of all RNG answer sequences of the real CorpusShufflingTool per "
                          "perturbation (full product where finite) and per flag set (deviation-bounded)",
                text="Each perturbation alone, each pair of flags and all 32 flag sets x include_ref x 4 magnitudes are "
                     "executed for every answer sequence within the bound; validity and per-flag-set confinement "
                     "clauses of the statement are asserted on every resulting corpus.",
                note="Generic answers only; sub-precision cuts only under the bound, '+1 unit' not asserted there."),
    "C03": dict(engine="E3 universe x all alignments + definition oracle", design="§4 C03",
                technique="explicit enumeration of bounded continua x all their alignments x slot permutations x "
                          "observation points against the float64 definition",
                text="Every enumerated alignment (all partitions of small continua plus the library's best/soft/fast "
                     "ones), in permuted slot orders, with and without an attached continuum, is evaluated through "
                     "every observation point and compared with the definition; values must agree with each other.",
                note="Known finding unitary-compute-disorder-scale matched by signature (value = definition * n/k)."),
    "C04": dict(engine="E3 unit pairs x dissimilarity configurations", design="§4 C04",
                technique="explicit enumeration of dissimilarity configurations (classes, delta_empty, alpha, beta, "
                          "label orders, 1..300 categories) x unit pairs; three-way comparison formula / d() / compiled",
                text="For every configuration and unit pair the documented formula, d() and the compiled form agree; "
                     "symmetry, non-negativity, zero on identical units; categorical values depend only on the names.",
                note="Levenshtein normalisation and ordinal normaliser are not pinned (only consistency / "
                     "proportionality)."),
    "C06": dict(engine="E1 thread-schedule explorer (controlled executor) + free-running configurations",
                design="§4 C06",
                technique="stateless exploration of all thread schedules of the real compute_gamma / gamma_cat / "
                          "gamma_k under a controlled executor (deviation-bounded, W=1..3), happens-before monitor, "
                          "plus configuration enumeration in free-running subprocesses",
                text="Every schedule within the deviation bound is executed and must give results bit-identical to the "
                     "sequential baseline, with no unordered RNG / shared-object access; free-running runs under 5 "
                     "hash seeds x 3 cpu counts x 2 repetitions must equal the baseline too.",
                note="Cooperative scheduler: scheduling points at synchronisation and visible operations only."),
    "C09": dict(engine="E3 universe + families, metamorphic relations", design="§4 C09",
                technique="explicit enumeration of bounded inputs and structured families (up to 2x60, 3x15, 5x5) x "
                          "transformation menu; each relation compares two runs of the real optimiser",
                text="Annotator permutations/renamings, translations, scalings, category renamings and delta_empty "
                     "factors are applied to every enumerated input; best-alignment disorder (and gamma for the "
                     "delta_empty relation, same seed, both samplers) must be preserved.",
                note="Dyadic grids keep transformed inputs exact in float32; 1e-4 relative tolerance."),
    "C10": dict(engine="E3 universe + lasso monitor", design="§4 C10",
                technique="explicit enumeration of a bounded universe x window sizes with cycle (lasso) detection on the "
                          "real fast-alignment loop, DP optimum oracle",
                text="Fast alignment of every enumerated continuum and window size: termination decided by revisited-"
                     "state detection, result validated as partition, reported disorder recomputed, compared with "
                     "the exact optimum; fast-mode gamma's choice of algorithm observed by spies.",
                note="Loop body assumed a deterministic function of the working copy."),
    "C13": dict(engine="E2 explicit-state BFS over operation histories", design="§4 C13",
                technique="breadth-first search over operation histories of the real Continuum (depth 4 / 5), state "
                          "deduplication by (model, observable snapshot), reference model compared after every step",
                text="Every history over the stated alphabet up to the depth is replayed on a fresh real object; after "
                     "each step annotators, units, order, counts, categories, bounds, copies, merges, rejections and "
                     "independence of derived continua are compared with a set-per-annotator model; == over all pairs "
                     "of ~280 states.",
                note="Alphabet: 3 annotators, 3+2 segments, 3 labels; histories beyond the depth are not reached."),
    "C14": dict(engine="E2 entry point x input x mutation enumeration", design="§4 C14",
                technique="explicit enumeration of every public entry point x input x later mutation with deep snapshot "
                          "comparison (depth-2 histories)",
                text="Each computation entry point is applied to each input; inputs and dissimilarities are "
                     "snapshotted before/after; every returned continuum is then mutated in four ways and the input "
                     "and sibling results must be unchanged (and vice versa).",
                note="Snapshots cover annotators, units, categories, bounds, window size, all dissimilarity attributes."),
    "C17": dict(engine="E3 universe x candidate alignments", design="§4 C17",
                technique="explicit enumeration of small continua x all multisets of candidate unitary alignments "
                          "(incl. re-slotted ones) x orders x check entry points, occurrence-count oracle",
                text="check(), check(continuum) and construction with check_validity for both alignment classes are "
                     "evaluated on every candidate alignment up to units+1 unitary alignments in several orders.",
                note="Foreign duplicated slots and soft checks with foreign slots are unspecified."),
    "C18": dict(engine="E3 file contents", design="§4 C18",
                technique="explicit enumeration of file contents from finite alphabets (awkward texts x delimiters x "
                          "times; RTTM turns; TextGrid / ELAN tiers x selections x label modes)",
                text="CSV round trips for every awkward annotator/label text and delimiter; generated RTTM, TextGrid "
                     "and ELAN files under every tier selection and label mode compared with the generator's record.",
                note="TextGrid/ELAN records are re-read with the third-party readers; only the adapter is judged."),
    "C20": dict(engine="deviation-bounded option lattice", design="§4 C20",
                technique="deviation-bounded enumeration of the CLI option lattice (<= 2 / 3 options off the base point "
                          "+ full sub-product), in-process CLI run vs API run, spies on the gamma computation",
                text="Every option set within the bound is run through the real CLI entry point and through the API "
                     "with equivalent arguments; printed / CSV / JSON numbers must equal the API's and every option "
                     "must be visible in the gamma computation.",
                note="Serial executor in both runs; option combinations beyond the bound are not explored."),
}

PENDING_REASON = "check not built yet in this session (planned, see DESIGN.md section 4); not claimed until it runs"


def main():
    props = [json.loads(l)["id"] for l in open(os.path.join(VERIF, "properties.jsonl"))]
    checks = []
    for pid in props:
        if pid not in CHECKS:
            continue
        c = CHECKS[pid]
        checks.append({
            "property_id": pid,
            "quick_cmd": f"./check {pid} --tier quick",
            "thorough_cmd": f"./check {pid} --tier thorough",
            "evidence_file": f"evidence/{pid}.json",
            "replay_cmd_template": f"./check {pid} --replay {{path}}",
            "engine": c["engine"],
            "level_claimed": {"category": "model_checking", "text": c["text"], "design_ref": c["design"]},
            "level_note": c["note"],
            "technique": c["technique"],
        })
    man = {
        "version": 1,
        "setup_cmd": "./check --selftest",
        "hooks": {
            "guard": "PYGAMMA_AGREEMENT_VERIF",
            "enable": "no source hooks: every seam is a module attribute rebound by the harness at run time "
                      "(ThreadPoolExecutor, numpy.random.*, sys.modules['cylp'], cvxpy.Problem.solve)",
            "baseline_off_cmd": "cd /repo && /venv/bin/python -m pytest -ra -q -p no:cacheprovider --timeout=900 "
                                "--continue-on-collection-errors",
            "source_commits": [],
            "add_only": True,
        },
        "engines": [
            {"name": "E1 stateless choice-point explorer (deviation-bounded) + RNG seam",
             "path": "mc/explorer.py, mc/rngseam.py, mc/e1.py",
             "serves_properties": [p for p in ("C05", "C06", "C15", "C16", "C19") if p in CHECKS],
             "kind_free_text": "exhaustive enumeration of answer sequences of np.random / a scripted sampler on the "
                               "real code, replay-twice determinism check"},
            {"name": "E1 thread-schedule explorer: controlled executor + happens-before monitor", "path": "mc/sched.py",
             "serves_properties": ["C06"],
             "kind_free_text": "cooperative baton scheduler over real threads, FIFO worker model, controlled "
                               "as_completed/wait, vector-clock race monitor"},
            {"name": "E2 explicit-state history search", "path": "mc/props/c13.py, mc/props/c14.py",
             "serves_properties": ["C13", "C14"],
             "kind_free_text": "BFS over operation histories of the real Continuum with a reference model"},
            {"name": "E3 bounded input universes + reference oracles", "path": "mc/universe.py, mc/oracles.py",
             "serves_properties": [p for p in props if p in CHECKS and p not in ("C05", "C06", "C13", "C14", "C15", "C16", "C19")],
             "kind_free_text": "explicit-state enumeration of bounded input spaces against float64 reference models"},
        ],
        "checks": checks,
        "notes": "All checks run the real library from /repo's working tree (VERIF_REPO overrides for scratch "
                 "worktrees). Exit 0/1/2 = holds / violation / harness error.",
        "not_applicable": [{"property_id": p, "reason": PENDING_REASON} for p in props if p not in CHECKS],
    }
    with open(os.path.join(VERIF, "MANIFEST.json"), "w") as f:
        json.dump(man, f, indent=1)
    print("MANIFEST.json:", len(checks), "checks,", len(man["not_applicable"]), "not claimed")


if __name__ == "__main__":
    main()
