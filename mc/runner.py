"""./check <id> [--tier quick|thorough] [--replay file]   |   ./check --selftest

Runs one property's exhaustive exploration on the current tree of the repository,
writes evidence/<id>.json, replay files for violations, prints
  VIOLATION property=<id> replay=<path>      (exit 1)
  KNOWN-FINDING: property=<id> <what fails>  (listed in KNOWN_FINDINGS.txt; exit 0)
exit 2 = harness error (never reported as a violation).
"""
import argparse
import hashlib
import importlib
import json
import os
import sys
import time
import traceback

from .load import VERIF, REPO

PROPS = [f"C{i:02d}" for i in range(1, 21)]
MAX_REPLAYS = 12


def h(obj):
    return hashlib.sha1(json.dumps(obj, sort_keys=True, default=str).encode()).hexdigest()[:12]


def jsonable(o):
    import numpy as np
    if isinstance(o, dict):
        return {str(k): jsonable(v) for k, v in o.items()}
    if isinstance(o, (list, tuple, set, frozenset)):
        return [jsonable(v) for v in o]
    if isinstance(o, (np.floating,)):
        return float(o)
    if isinstance(o, (np.integer,)):
        return int(o)
    if isinstance(o, np.ndarray):
        return jsonable(o.tolist())
    if isinstance(o, float) and (o != o or o in (float("inf"), float("-inf"))):
        return repr(o)
    if isinstance(o, (str, int, float, bool)) or o is None:
        return o
    return repr(o)


def known_findings():
    """{property: {key: text}} from KNOWN_FINDINGS.txt ('finding:' lines only)."""
    out = {}
    path = os.path.join(VERIF, "KNOWN_FINDINGS.txt")
    if not os.path.exists(path):
        return out
    for line in open(path):
        line = line.strip()
        if not line.startswith("finding:"):
            continue
        parts = line[len("finding:"):].split()
        kv = dict(p.split("=", 1) for p in parts[:2] if "=" in p)
        text = " ".join(parts[2:])
        out.setdefault(kv.get("property"), {})[kv.get("key")] = text
    return out


def _run_task(args):
    modname, task = args
    mod = importlib.import_module(modname)
    return mod.run(task)


def _init_worker():
    from .load import load
    load()


def merge(acc, res):
    for k in ("evaluations", "states", "transitions", "traces", "unspecified", "horizon_hits", "replayed_twice"):
        acc[k] = acc.get(k, 0) + int(res.get(k, 0))
    for k, v in res.get("extra", {}).items():
        if isinstance(v, (int, float)):
            acc["extra"][k] = acc["extra"].get(k, 0) + v
        elif isinstance(v, list):
            s = acc["extra_sets"].setdefault(k, set())
            s.update(v if all(isinstance(x, (str, int, float)) for x in v) else [h(x) for x in v])
        else:
            acc["extra"][k] = v
    acc["nontrivial"].update(res.get("nontrivial", []))
    acc["outcomes"].update(res.get("outcomes", []))
    acc["state_set"].update(res.get("state_set", []))
    if len(acc["samples"]) < 4:
        acc["samples"].extend(res.get("samples", [])[: 4 - len(acc["samples"])])
    for v in res.get("violations", []):
        sig = v.get("sig") or h(v.get("case"))
        if sig not in acc["violations"]:
            acc["violations"][sig] = v
        acc["violation_count"] += 1
    if res.get("exhaustive") is False:
        acc["exhaustive"] = False
    for c in res.get("caps", []):
        if c not in acc["caps"]:
            acc["caps"].append(c)


def run_check(pid, tier, seed):
    t0 = time.time()
    modname = f"mc.props.{pid.lower()}"
    mod = importlib.import_module(modname)
    from .load import load
    load()
    tasks = mod.shards(tier, seed)
    # VERIF_SEED only rotates the order in which shards are visited
    if tasks:
        r = seed % len(tasks)
        tasks = tasks[r:] + tasks[:r]
    acc = {"extra": {}, "extra_sets": {}, "nontrivial": set(), "outcomes": set(), "state_set": set(), "samples": [],
           "violations": {}, "violation_count": 0, "exhaustive": True, "caps": []}
    harness_errors = []
    from .pool import Pool
    pool = Pool(_run_task, init=None, task_timeout=getattr(mod, "TASK_TIMEOUT", 900.0))
    if os.environ.get("VERIF_INPROC") == "1":
        results = []
        for i, t in enumerate(tasks):
            try:
                results.append((i, "ok", mod.run(t)))
            except Exception:
                results.append((i, "error", traceback.format_exc()))
    else:
        results = pool.run([(modname, t) for t in tasks])
    for idx, status, payload in results:
        if status == "ok":
            merge(acc, payload)
        elif status == "hang":
            if getattr(mod, "HANG_IS_VIOLATION", False):
                v = {"sig": "hang-" + h(tasks[idx]), "msg": f"no return: shard did not finish ({payload})",
                     "case": {"kind": "shard", "task": tasks[idx]}}
                merge(acc, {"violations": [v]})
            else:
                harness_errors.append(f"shard {idx} hang: {payload}")
        elif "worker died" in str(payload) and getattr(mod, "CRASH_IS_VIOLATION", False):
            # the library took the whole interpreter down on a legal input: it did not return
            v = {"sig": "crash-" + h(tasks[idx]), "msg": f"no return: the process died while evaluating this shard ({payload})",
                 "case": {"kind": "shard", "task": tasks[idx]}}
            merge(acc, {"violations": [v]})
        else:
            harness_errors.append(f"shard {idx}: {payload}")
    wall = time.time() - t0

    # ---- classify violations
    known = known_findings().get(pid, {})
    new, old = [], {}
    for sig, v in acc["violations"].items():
        k = v.get("known")
        if k and k in known:
            old.setdefault(k, []).append(v)
        else:
            new.append(v)
    rdir = os.path.join(VERIF, "replays", pid)
    lines = []
    if new:
        os.makedirs(rdir, exist_ok=True)
        for v in new[:MAX_REPLAYS]:
            path = os.path.join(rdir, h(v.get("case")) + ".json")
            with open(path, "w") as f:
                json.dump(jsonable({"property": pid, "msg": v.get("msg"), "case": v.get("case")}), f, indent=1)
            lines.append(f"VIOLATION property={pid} replay={path}")
            lines.append(f"  # {str(v.get('msg'))[:300]}")
    for k, text in known.items():
        n = len(old.get(k, []))
        lines.append(f"KNOWN-FINDING: property={pid} key={k} {text} (distinct cases reproducing it in this run: {n})")

    # ---- evidence
    meta = getattr(mod, "META", {})
    states = acc.get("states", 0) or len(acc["state_set"])
    if acc["state_set"]:
        states = len(acc["state_set"])
    cov = {
        "states": int(states),
        "transitions": int(acc.get("transitions", 0)),
        "traces_validated_against_impl": int(acc.get("traces", 0)),
        "evaluations": int(acc.get("evaluations", 0)),
        "distinct_nontrivial": len(acc["nontrivial"]),
        "rule": meta.get("rule", ""),
        "samples": jsonable(acc["samples"]),
        "exhaustive": bool(acc["exhaustive"] and not harness_errors),
        "distinct_outcomes": len(acc["outcomes"]),
        "unspecified": int(acc.get("unspecified", 0)),
        "horizon_hits": int(acc.get("horizon_hits", 0)),
        "replayed_twice": int(acc.get("replayed_twice", 0)),
        "caps_hit": acc["caps"],
        "bounds": meta.get("bounds", {}).get(tier, meta.get("bounds", {})),
        "shards": len(tasks),
        "repo": REPO,
        "explanation": meta.get("explanation", ""),
    }
    for k, v in acc["extra"].items():
        cov[k] = v
    for k, s in acc["extra_sets"].items():
        cov[k] = len(s)
    ev = {
        "property_id": pid, "tier": tier, "seed": int(seed), "level": "model_checking",
        "coverage": cov,
        "assumptions": meta.get("assumptions", []),
        "wall_s": round(wall, 2),
        "violations": len(new),
        "known_findings_reproduced": {k: len(v) for k, v in old.items()},
    }
    if hasattr(mod, "finalize"):
        ev["coverage"]["exhaustive"] = bool(ev["coverage"]["exhaustive"] and not (mod.finalize(cov) or []))
    os.makedirs(os.path.join(VERIF, "evidence"), exist_ok=True)
    with open(os.path.join(VERIF, "evidence", f"{pid}.json"), "w") as f:
        json.dump(jsonable(ev), f, indent=1)
    if hasattr(mod, "finalize"):
        harness_errors += list(mod.finalize(cov) or [])
    for ln in lines:
        print(ln)
    print(f"# {pid} tier={tier} seed={seed} states={cov['states']} transitions={cov['transitions']} "
          f"evaluations={cov['evaluations']} nontrivial={cov['distinct_nontrivial']} "
          f"outcomes={cov['distinct_outcomes']} violations={len(new)} (raw {acc['violation_count']}) "
          f"known={sum(len(v) for v in old.values())} wall={wall:.1f}s")
    if harness_errors:
        for e in harness_errors[:5]:
            print("HARNESS-ERROR:", str(e)[:600], file=sys.stderr)
        # a violation that was found and written out stands even if other shards could not be evaluated
        # (e.g. the changed library crashed a worker process); without one, the run is a harness error
        return 1 if new else 2
    if cov["states"] < 1 or cov["transitions"] < 1:
        print("HARNESS-ERROR: vacuous run (no states / transitions)", file=sys.stderr)
        return 2
    return 1 if new else 0


def run_replay(pid, path):
    mod = importlib.import_module(f"mc.props.{pid.lower()}")
    from .load import load
    load()
    data = json.load(open(path))
    case = data.get("case", data)
    if case.get("kind") == "shard":
        res = mod.run(case["task"])
        vs = res.get("violations", [])
    else:
        vs = mod.replay(case)
    known = known_findings().get(pid, {})
    bad = [v for v in vs if not (v.get("known") and v["known"] in known)]
    for v in vs:
        print("#", "known" if v not in bad else "violation", str(v.get("msg"))[:400])
    if bad:
        print(f"VIOLATION property={pid} replay={path}")
        return 1
    print(f"# replay of {path}: property holds on this case")
    return 0


def selftest():
    from .load import load
    pa = load()
    import cvxpy as cp
    assert "CBC" in cp.installed_solvers() or "GLPK_MI" in cp.installed_solvers(), cp.installed_solvers()
    assert "GLPK_MI" in cp.installed_solvers(), "GLPK_MI back-end missing"
    from .spec import cont, build_continuum, build_dissim
    c = build_continuum(cont(("a", [(0, 1, "x")]), ("b", [(0, 2, "x")])))
    al = c.get_best_alignment(build_dissim({"k": "comb"}))
    assert abs(float(al.disorder) - 1 / 9) < 1e-5, al.disorder
    for p in PROPS:
        if os.path.exists(os.path.join(VERIF, "mc", "props", p.lower() + ".py")):
            importlib.import_module(f"mc.props.{p.lower()}")
    print(f"selftest ok: pygamma_agreement from {os.path.dirname(pa.__file__)}, solvers {cp.installed_solvers()}")
    return 0


def main(argv=None):
    ap = argparse.ArgumentParser()
    ap.add_argument("prop", nargs="?")
    ap.add_argument("--tier", default=os.environ.get("VERIF_TIER", "quick"), choices=["quick", "thorough"])
    ap.add_argument("--replay")
    ap.add_argument("--selftest", action="store_true")
    a = ap.parse_args(argv)
    seed = int(os.environ.get("VERIF_SEED", "0") or 0)
    try:
        if a.selftest:
            return selftest()
        if a.prop not in PROPS:
            print("unknown property", a.prop, file=sys.stderr)
            return 2
        if a.replay:
            return run_replay(a.prop, a.replay)
        return run_check(a.prop, a.tier, seed)
    except Exception:
        traceback.print_exc()
        return 2


if __name__ == "__main__":
    sys.exit(main())
