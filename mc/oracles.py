"""Reference models, written from the property statements in float64.

Shares no code with the library: units are plain (start, end, label) triples.
"""
import itertools
import math

from .spec import spec_by_annotator, unit_key

REL_TOL = 1e-4


def close(a, b, tol=REL_TOL):
    a = float(a)
    b = float(b)
    if a == b:
        return True  # includes equal infinities
    if math.isnan(a) or math.isnan(b):
        return False
    return abs(a - b) <= tol * max(1.0, abs(a), abs(b))


# ----------------------------------------------------------------------------- dissimilarities

def lev_distance(s1, s2):
    prev = list(range(len(s2) + 1))
    for i, c1 in enumerate(s1, 1):
        cur = [i]
        for j, c2 in enumerate(s2, 1):
            cur.append(min(prev[j] + 1, cur[j - 1] + 1, prev[j - 1] + (c1 != c2)))
        prev = cur
    return prev[-1]


def cat_matrix(r):
    """{(name1, name2): value in [0, 1]} for a categorical recipe (before delta_empty)."""
    k = r["k"]
    labels = list(r["labels"])
    if k == "pre":
        srt = sorted(labels)
        return {(a, b): float(r["matrix"][i][j]) for i, a in enumerate(srt) for j, b in enumerate(srt)}
    if k == "lev":
        raw = {(a, b): lev_distance(a, b) / (max(len(a), len(b)) + 1) for a in labels for b in labels}
    elif k in ("ord", "num"):
        if k == "num":
            p = [float(x) for x in labels]
        else:
            p = r.get("p")
            p = [float(i) for i in range(len(labels))] if p is None else [float(x) for x in p]
        raw = {(a, b): abs(p[i] - p[j]) for i, a in enumerate(labels) for j, b in enumerate(labels)}
    else:
        raise ValueError(k)
    m = max(1.0, max(raw.values()))
    return {kk: v / m for kk, v in raw.items()}


def pos_value(u, v):
    x = (abs(u[0] - v[0]) + abs(u[1] - v[1])) / ((u[1] - u[0]) + (v[1] - v[0]))
    return x * x


def pair_fn(r):
    """(d, delta_empty): d(u, v) over (start, end, label) triples, float64."""
    k = r["k"]
    de = float(r.get("de", 1.0))
    if k == "pos":
        return (lambda u, v: pos_value(u, v) * de), de
    if k == "abs":
        return (lambda u, v: (0.0 if u[2] == v[2] else 1.0) * de), de
    if k in ("pre", "lev", "ord", "num"):
        m = cat_matrix(r)
        return (lambda u, v: m[(u[2], v[2])] * de), de
    if k == "comb":
        a = float(r.get("a", 1.0))
        b = float(r.get("b", 1.0))
        pos_de = de if r.get("pos") is None else float(r["pos"].get("de", 1.0))
        if r.get("cat") is None or r["cat"]["k"] == "abs":
            cat = lambda u, v: (0.0 if u[2] == v[2] else 1.0)  # noqa
        else:
            m = cat_matrix(r["cat"])
            cat = lambda u, v: m[(u[2], v[2])]  # noqa
        return (lambda u, v: a * pos_value(u, v) * pos_de + b * cat(u, v) * de), de
    raise ValueError(k)


# ----------------------------------------------------------------------------- disorders

def unitary_disorder(slots, d, de):
    """slots: one unit-or-None per annotator.  Mean over the C(n,2) pairs, delta_empty
    whenever either member of the pair is the empty unit."""
    n = len(slots)
    tot = 0.0
    for i in range(n):
        for j in range(i):
            if slots[i] is None or slots[j] is None:
                tot += de
            else:
                tot += d(slots[i], slots[j])
    return tot / (n * (n - 1) // 2)


def all_tuples(byann, d, de):
    """Every combination of one-unit-or-empty per annotator except the all-empty one:
    list of (index tuple with None for empty, bitmask over global unit numbers, disorder)."""
    offs = []
    o = 0
    for _, units in byann:
        offs.append(o)
        o += len(units)
    out = []
    ranges = [list(range(len(units))) + [None] for _, units in byann]
    for idx in itertools.product(*ranges):
        if all(i is None for i in idx):
            continue
        slots = [None if i is None else byann[a][1][i] for a, i in enumerate(idx)]
        mask = 0
        for a, i in enumerate(idx):
            if i is not None:
                mask |= 1 << (offs[a] + i)
        out.append((idx, mask, unitary_disorder(slots, d, de)))
    return out


def min_partition(tuples, m):
    """Minimum total disorder of a partition of the m units into tuples (exact, DP over subsets)."""
    full = (1 << m) - 1
    by_low = [[] for _ in range(m)]
    for idx, mask, cost in tuples:
        low = (mask & -mask).bit_length() - 1
        by_low[low].append((mask, cost))
    INF = float("inf")
    f = [INF] * (full + 1)
    f[0] = 0.0
    for mask in range(full):
        cur = f[mask]
        if cur == INF:
            continue
        rest = ~mask & full
        low = (rest & -rest).bit_length() - 1
        for tm, cost in by_low[low]:
            if tm & mask == 0:
                nm = mask | tm
                if cur + cost < f[nm]:
                    f[nm] = cur + cost
    return f[full]


def min_cover(tuples, m):
    """Minimum total disorder of a family of tuples whose union is all m units."""
    full = (1 << m) - 1
    containing = [[] for _ in range(m)]
    for idx, mask, cost in tuples:
        for b in range(m):
            if mask >> b & 1:
                containing[b].append((mask, cost))
    INF = float("inf")
    f = [INF] * (full + 1)
    f[0] = 0.0
    for mask in range(full):
        cur = f[mask]
        if cur == INF:
            continue
        rest = ~mask & full
        low = (rest & -rest).bit_length() - 1
        for tm, cost in containing[low]:
            nm = mask | tm
            if cur + cost < f[nm]:
                f[nm] = cur + cost
    return f[full]


def optimum(spec, recipe, cover=False):
    """Exact minimal alignment disorder of a continuum spec (partition or cover)."""
    byann = spec_by_annotator(spec)
    d, de = pair_fn(recipe)
    tuples = all_tuples(byann, d, de)
    m = sum(len(u) for _, u in byann)
    n = len(byann)
    best = (min_cover if cover else min_partition)(tuples, m)
    return best / (m / n)


# ----------------------------------------------------------------------------- structure

def check_unitary_structure(n_tuple, byann):
    """Problems of one unitary alignment (list of (annotator, unit triple|None)) w.r.t. the
    continuum: one slot per annotator, own units only, at least one real unit."""
    probs = []
    names = [a for a, _ in byann]
    got = [a for a, _ in n_tuple]
    if sorted(got) != sorted(names):
        probs.append(f"slots {got} are not one per annotator {names}")
        return probs
    units = {a: set(us) for a, us in byann}
    real = 0
    for a, u in n_tuple:
        if u is None:
            continue
        real += 1
        if u not in units[a]:
            probs.append(f"unit {u} in the slot of {a} is not a unit of {a}")
    if real == 0:
        probs.append("unitary alignment without any real unit")
    return probs


def check_partition(unitaries, byann, cover=False):
    """unitaries: list of n_tuples as (annotator, triple|None).  Returns list of problems."""
    probs = []
    count = {}
    for nt in unitaries:
        probs += check_unitary_structure(nt, byann)
        for a, u in nt:
            if u is not None:
                count[(a, u)] = count.get((a, u), 0) + 1
    for a, us in byann:
        for u in us:
            c = count.get((a, u), 0)
            if c == 0:
                probs.append(f"unit {u} of {a} is in no unitary alignment")
            elif c > 1 and not cover:
                probs.append(f"unit {u} of {a} is in {c} unitary alignments")
    return probs


def optimum_two_annotators(spec, recipe):
    """Exact minimal partition disorder for TWO annotators of any size: a unit is paired with one unit of the other
    annotator (cost d) or left alone (cost delta_empty) - an assignment problem, solved by the Hungarian method
    (scipy), independent of the library's enumeration, pruning and MIP."""
    import numpy as np
    from scipy.optimize import linear_sum_assignment
    byann = spec_by_annotator(spec)
    assert len(byann) == 2
    d, de = pair_fn(recipe)
    A, B = byann[0][1], byann[1][1]
    p, q = len(A), len(B)
    BIG = 1e9
    C = np.full((p + q, p + q), BIG)
    for i, u in enumerate(A):
        for j, v in enumerate(B):
            C[i, j] = d(u, v)
        C[i, q + i] = de          # u left alone
    for j in range(q):
        C[p + j, j] = de          # v left alone
    C[p:, q:] = 0.0
    r, c = linear_sum_assignment(C)
    total = float(C[r, c].sum())
    return total / ((p + q) / 2)
