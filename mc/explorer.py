"""E1 - stateless choice-point explorer, deviation bounded.

The program under test runs to completion once per choice sequence.  Every source of
nondeterminism calls chooser.choose(n, label); a replayed prefix whose menu no longer fits is a
hard error (nondeterminism not owned).  After the prefix the default answer 0 is taken; every
alternative at every later point becomes a new prefix.  Bound = number of non-default choices.
"""


class Diverged(Exception):
    """replaying a prefix met a different menu: the harness does not own all nondeterminism"""


class Horizon(Exception):
    """execution cut after `horizon` choice points"""


class Chooser:
    def __init__(self, prefix=(), horizon=None):
        self.prefix = list(prefix)
        self.horizon = horizon
        self.trace = []  # (menu size, choice, label)

    def choose(self, n, label=None):
        i = len(self.trace)
        if n <= 0:
            raise Diverged(f"empty menu at point {i} ({label})")
        if self.horizon is not None and i >= self.horizon:
            raise Horizon(i)
        if i < len(self.prefix):
            c = self.prefix[i]
            if c >= n:
                raise Diverged(f"point {i} ({label}): prefix wants choice {c}, menu has {n}")
        else:
            c = 0
        self.trace.append((n, c, label))
        return c

    @property
    def choices(self):
        return [c for _, c, _ in self.trace]

    @property
    def deviations(self):
        return sum(1 for _, c, _ in self.trace if c != 0)


def explore(run_fn, bound=None, horizon=None, root=(), branch_until=None, max_exec=None, stats=None):
    """Depth-first enumeration.  run_fn(chooser) -> observation (exceptions propagate except Horizon).
    Yields (choices, chooser, observation | None when cut at the horizon).
    root: fixed prefix (no branching inside it).  branch_until: only branch at points < that index.
    stats (dict) receives executions, horizon_hits, capped."""
    stats = stats if stats is not None else {}
    stats.setdefault("executions", 0)
    stats.setdefault("horizon_hits", 0)
    stats.setdefault("capped", False)
    stack = [list(root)]
    base = len(root)
    while stack:
        if max_exec is not None and stats["executions"] >= max_exec:
            stats["capped"] = True
            return
        prefix = stack.pop()
        ch = Chooser(prefix, horizon)
        try:
            obs = run_fn(ch)
            cut = False
        except Horizon:
            obs = None
            cut = True
            stats["horizon_hits"] += 1
        stats["executions"] += 1
        if len(ch.trace) < len(prefix):
            raise Diverged(f"execution ended after {len(ch.trace)} points, prefix has {len(prefix)}")
        yield ch.choices, ch, obs, cut
        choices = ch.choices
        devs = 0
        pending = []
        for i, (n, c, _) in enumerate(ch.trace):
            if i >= max(len(prefix), base) and (branch_until is None or i < branch_until):
                if bound is None or devs + 1 <= bound:
                    for alt in range(n - 1, 0, -1):
                        pending.append(choices[:i] + [alt])
            if c != 0:
                devs += 1
        # deeper alternatives first on the stack => shallow ones explored first when popped last
        stack.extend(reversed(pending))


def roots(run_fn, depth, bound=None, horizon=None):
    """Distinct prefixes of length <= depth covering the whole space (for sharding)."""
    out = []
    for choices, ch, obs, cut in explore(run_fn, bound=bound, horizon=horizon, branch_until=depth):
        out.append(choices[:depth])
    return out
