#!/usr/bin/env python3
"""prints the prompt given to an independent sub-agent for one property (only the property text + a worktree)"""
import json, sys
pid, wt = sys.argv[1], sys.argv[2]
props = {json.loads(l)["id"]: json.loads(l) for l in open("/verif/properties.jsonl")}
p = props[pid]
out = wt.replace("/c", "/out_c")
print(f"""You are given a scratch git worktree of the Python library bootphon/pygamma-agreement at {wt} (library code in
{wt}/pygamma_agreement/, its tests in {wt}/tests/). Work ONLY inside {wt} and {out}; do not read or write anything under
/verif or /repo, and do not commit anything. Use the interpreter /venv/bin/python (it has every dependency). To run code
against the worktree, run it with the worktree as current directory (cwd comes first on sys.path), e.g.
`cd {wt} && /venv/bin/python my_demo.py`; check with `print(pygamma_agreement.__file__)` that the module comes from {wt}.
Importing the library takes ~12 s (numba compilation).

Here is a semantic property that this library is meant to satisfy:

  Title: {p['title']}
  Statement: {p['statement']}
  Quantified over: {p['quantifier']['text']}

Your task: make a change to the LIBRARY code (not the tests) that BREAKS this property, while the library still imports
and the existing test suite still passes: `cd {wt} && /venv/bin/python -m pytest -q -p no:cacheprovider --timeout=900
--deselect tests/test_cli.py` must still report 38 passed (it takes about 5 minutes; run it, do not assume).
The change must be realistic - the kind of slip a maintainer could make in a refactor or an "optimisation" - and it must
need something SPECIFIC to manifest: a particular interleaving of threads, a fault or unusual answer at a particular point,
a multi-step sequence of operations, an unusual input shape or size, or two cooperating sites that each look fine alone.
Do NOT make a change that ordinary use would expose at once (e.g. breaking every call), and do not just delete a feature.

Deliver, in {out}/ :
  - patch.diff  : output of `git -C {wt} diff` (the change only; no new test files inside the patch)
  - demo.py     : a small self-contained program that exits non-zero (or fails an assert) WITH the change applied and
                  exits 0 WITHOUT it (verify both with `git -C {wt} diff > p.diff; git -C {wt} apply -R p.diff` ... `git -C {wt} apply p.diff`; NEVER use `git stash`: the stash is shared between worktrees),
                  run as `cd <tree> && /venv/bin/python {out}/demo.py`
  - note.md     : 5-10 lines: what you changed, why it breaks the property, what exactly is needed for it to manifest,
                  and the pytest summary line you observed with the change applied.
Leave the change applied in the worktree when you finish. Reply with a 3-line summary.""")
