#!/bin/bash
# tools/with_patch.sh <patch.diff> <command...>  - runs a command with VERIF_REPO pointing to a scratch copy of /repo + patch
P=$(readlink -f "$1"); shift
D=$(mktemp -d /tmp/seedrun.XXXXXX)
cp -r /repo/pygamma_agreement "$D/" && (cd "$D" && patch -s -p1 < "$P") || { echo "patch failed"; rm -rf "$D"; exit 2; }
VERIF_REPO=$D "$@"; rc=$?
rm -rf "$D"; exit $rc
