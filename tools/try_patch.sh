#!/bin/bash
# tools/try_patch.sh <patch.diff> <check id>...   - runs checks against a scratch copy of /repo with the patch applied
# (equivalent to: git -C /repo apply <patch>; ./check ...; git -C /repo checkout -- .   but leaves /repo alone)
P=$(readlink -f "$1"); shift
D=$(mktemp -d /tmp/seedrun.XXXXXX)
cp -r /repo/pygamma_agreement "$D/" && (cd "$D" && patch -s -p1 < "$P") || { echo "patch failed"; rm -rf "$D"; exit 2; }
cd "$(dirname "$(readlink -f "$0")")/.."
for id in "$@"; do
  out=$(VERIF_REPO=$D ./check $id --tier ${TIER:-quick} 2>&1); rc=$?
  echo "$id rc=$rc $(echo "$out" | grep -c '^VIOLATION') violation line(s) :: $(echo "$out" | grep '^# C' | cut -c1-160)"
  echo "$out" | grep -A1 '^VIOLATION' | grep '^  #' | head -2 | cut -c1-260
done
rm -rf "$D"
