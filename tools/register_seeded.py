#!/usr/bin/env python3
"""tools/register_seeded.py <seed id> <property> <out dir> <needs> <caught_by csv> [<missed_before>]"""
import json, os, shutil, sys
sid, prop, out, needs, caught = sys.argv[1:6]
missed = sys.argv[6] if len(sys.argv) > 6 else ""
d = f"/verif/seeded/{sid}"
os.makedirs(d, exist_ok=True)
for f in ("patch.diff", "demo.py", "note.md"):
    shutil.copy(os.path.join(out, f), os.path.join(d, f))
confirm = open(out.replace("out_", "confirm_") + ".txt").read().strip() if os.path.exists(out.replace("out_", "confirm_") + ".txt") else ""
meta = {
    "id": sid, "breaks_property": prop, "origin": "independent sub-agent given only the property text and a scratch worktree",
    "needs_to_manifest": needs,
    "confirmed_by_me": {
        "how": "tools/confirm_seeded.sh in the scratch worktree: demo.py with the change (must fail), with the change "
               "reverted by git apply -R (must pass), then the full baseline suite with the change applied",
        "result": confirm},
    "checks_run": {"how": "tools/try_patch.sh patch.diff <checks> (scratch copy of /repo + VERIF_REPO; equivalent to git -C /repo apply / checkout)",
                   "caught_by": [c for c in caught.split(",") if c], "missed_before_strengthening": missed},
}
json.dump(meta, open(os.path.join(d, "meta.json"), "w"), indent=1)
print("registered", d)
