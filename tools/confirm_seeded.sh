#!/bin/bash
# tools/confirm_seeded.sh <worktree with the change applied> <out dir with patch.diff demo.py>
# Confirms independently: demo fails with the change, passes without, and the baseline suite passes with it.
WT=$1; OUT=$2
cd "$WT" || exit 2
git diff > "$OUT/confirm.diff"
if ! diff -q <(git diff) "$OUT/patch.diff" >/dev/null; then echo "NOTE: worktree diff differs from patch.diff (using worktree diff)"; cp "$OUT/confirm.diff" "$OUT/patch.diff"; fi
/venv/bin/python -W ignore "$OUT/demo.py" > "$OUT/demo_with.log" 2>&1; with=$?
git apply -R "$OUT/patch.diff" || { echo "cannot revert"; exit 2; }
/venv/bin/python -W ignore "$OUT/demo.py" > "$OUT/demo_without.log" 2>&1; without=$?
git apply "$OUT/patch.diff" || { echo "cannot re-apply"; exit 2; }
/venv/bin/python -m pytest -q -p no:cacheprovider --timeout=900 --deselect tests/test_cli.py > "$OUT/pytest_confirm.log" 2>&1
summary=$(tail -1 "$OUT/pytest_confirm.log")
echo "$(basename $WT): demo with change rc=$with, without rc=$without; pytest: $summary"
