#!/bin/bash
# tools/seeded_regress.sh [seed ids...]  - every seeded change must be reported (exit 1 + VIOLATION) by each check
# listed in its meta.json "caught_by"; runs against scratch copies, /repo is left alone.
cd "$(dirname "$(readlink -f "$0")")/.." || exit 2
fail=0
for d in ${@:-$(ls seeded)}; do
  d=${d%/}; d=${d#seeded/}
  checks=$(/venv/bin/python -c "import json;print(' '.join(json.load(open('seeded/$d/meta.json'))['checks_run']['caught_by']))")
  out=$(./tools/try_patch.sh seeded/$d/patch.diff $checks 2>&1)
  echo "$out" | grep -E '^C[0-9]+ rc=' | while read -r line; do
    case "$line" in
      *" rc=1 "*) echo "ok    $d :: ${line:0:60}";;
      *) echo "MISS  $d :: ${line:0:120}";;
    esac
  done
done
