#!/bin/bash
# tools/run_all.sh [tier] [seed]  - runs every registered check, prints one line per check
cd "$(dirname "$(readlink -f "$0")")/.." || exit 2
TIER=${1:-quick}; SEED=${2:-0}
for i in ${ONLY:-$(seq -w 1 20)}; do
  id=C$i
  s=$(date +%s)
  out=$(VERIF_SEED=$SEED ./check $id --tier $TIER 2>&1); rc=$?
  e=$(date +%s)
  nv=$(echo "$out" | grep -c '^VIOLATION')
  nk=$(echo "$out" | grep -c '^KNOWN-FINDING')
  echo "$id rc=$rc violations=$nv known=$nk wall=$((e-s))s :: $(echo "$out" | grep '^# C' | cut -c1-200)"
  [ $rc -ne 0 ] && echo "$out" | grep -v '^KNOWN' | head -6 | cut -c1-300
done
